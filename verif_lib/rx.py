"""E3 — regular-language comparison in z3's sequence/regex theory over a minterm alphabet.

* `from_sre`  : Python regex text (the OUTPUT of elementpath's translate_pattern, or a datatype's `pattern`) -> IR, using CPython's
                own `re._parser`.
* `XsdRef`    : an independent reference parser for the XSD / XPath regular-expression grammar -> IR (character classes from the
                running interpreter's `unicodedata`, never from elementpath's tables).
* `compare`   : both IRs are re-expressed over the minterm alphabet of all character sets that occur in either (the partition is
                computed concretely; the language question stays with the solver) and z3 decides  exists s . s in L1 xor s in L2
                (or an inclusion); `unsat` = equal for every subject string of any length.
IR: ('set', ranges) | ('cat', [..]) | ('alt', [..]) | ('rep', lo, hi|None, x) | ('look', x) | ('bol',) | ('eos',) | ('eol_py',)
ranges are sorted disjoint inclusive (lo, hi) pairs.
"""
import re
import unicodedata
import re._parser as sre_parse
import re._constants as sc
import z3

MAXU = 0x10FFFF


class Invalid(Exception):
    """the reference grammar rejects the pattern"""


class NotRegular(Exception):
    """construct outside the encodable fragment (back-reference, look-behind, …)"""


# ---------------------------------------------------------------------------------------------------
# character-set algebra

def norm(rs):
    rs = sorted(rs)
    out = []
    for a, b in rs:
        if out and a <= out[-1][1] + 1:
            out[-1] = (out[-1][0], max(out[-1][1], b))
        else:
            out.append((a, b))
    return out


def comp(rs):
    out = []
    p = 0
    for a, b in norm(rs):
        if a > p:
            out.append((p, a - 1))
        p = b + 1
    if p <= MAXU:
        out.append((p, MAXU))
    return out


def union(*sets):
    return norm([r for s in sets for r in s])


def inter(a, b):
    return comp(union(comp(a), comp(b)))


def diff(a, b):
    return inter(a, comp(b))


def ranges_of(pred):
    out = []
    start = None
    for cp in range(MAXU + 1):
        if pred(cp):
            if start is None:
                start = cp
        elif start is not None:
            out.append((start, cp - 1))
            start = None
    if start is not None:
        out.append((start, MAXU))
    return out


_CACHE = {}


def py_category(name):
    """Python's \\d \\w \\s (str patterns, Unicode) as range lists — measured from the running interpreter's `re`"""
    if ('py', name) not in _CACHE:
        rx = re.compile({'d': r'\d', 'w': r'\w', 's': r'\s'}[name])
        _CACHE[('py', name)] = ranges_of(lambda c: rx.match(chr(c)) is not None)
    return _CACHE[('py', name)]


def _general_categories():
    if 'gc' not in _CACHE:
        table = {}
        start, cur = 0, unicodedata.category(chr(0))
        for cp in range(1, MAXU + 2):
            c = unicodedata.category(chr(cp)) if cp <= MAXU else None
            if c != cur:
                table.setdefault(cur, []).append((start, cp - 1))
                start, cur = cp, c
        _CACHE['gc'] = table
    return _CACHE['gc']


def category(name):
    """\\p{name} for general categories (one or two letters) from unicodedata"""
    gc = _general_categories()
    if len(name) == 2:
        if name not in gc and name not in ('Cs', 'Co', 'Cn', 'Cc', 'Cf'):
            raise KeyError(name)
        return norm(gc.get(name, []))
    if len(name) == 1 and name in 'LMNPZSC':
        return norm([r for k, v in gc.items() if k[0] == name for r in v])
    raise KeyError(name)


ND = lambda: category('Nd')   # noqa: E731
XSD_SPACE = [(9, 10), (13, 13), (32, 32)]


def xsd_word():
    return comp(union(category('P'), category('Z'), category('C')))


# XML 1.0 (5th ed.) NameStartChar / NameChar, BMP part (astral name characters are outside the claim: the XSD editions disagree)
NAME_START = norm([(0x3A, 0x3A), (0x41, 0x5A), (0x5F, 0x5F), (0x61, 0x7A), (0xC0, 0xD6), (0xD8, 0xF6), (0xF8, 0x2FF), (0x370, 0x37D),
                   (0x37F, 0x1FFF), (0x200C, 0x200D), (0x2070, 0x218F), (0x2C00, 0x2FEF), (0x3001, 0xD7FF), (0xF900, 0xFDCF),
                   (0xFDF0, 0xFFFD)])
NAME_CHAR = union(NAME_START, [(0x2D, 0x2E), (0x30, 0x39), (0xB7, 0xB7), (0x300, 0x36F), (0x203F, 0x2040)])
ANY = [(0, MAXU)]
NL = [(10, 10)]


# ---------------------------------------------------------------------------------------------------
# Python regex -> IR

_CASE = {}


def case_classes():
    """code point -> members of its case-variant class: the equivalence classes of the SIMPLE (single character) Unicode lower/upper case
    mappings of the running interpreter (F&O 5.6.2 'i' flag: C2 is a case-variant of C1 if their lower-case or their upper-case forms
    are equal).  Only characters with a non-trivial class are listed."""
    if _CASE:
        return _CASE
    import _sre
    n = 0x110000
    par = list(range(n))

    def find(x):
        while par[x] != x:
            par[x] = par[par[x]]
            x = par[x]
        return x
    for c in range(n):
        ch = chr(c)
        lo, up = ch.lower(), ch.upper()
        for d in (_sre.unicode_tolower(c), ord(lo) if len(lo) == 1 else c, ord(up) if len(up) == 1 else c):
            if d != c:
                a, b = find(c), find(d)
                if a != b:
                    par[a] = b
    groups = {}
    for c in range(n):
        r = find(c)
        if r != c:
            groups.setdefault(r, [r]).append(c)
    for members in groups.values():
        t = tuple(sorted(members))
        for m in t:
            _CASE[m] = t
    return _CASE


def _in_ranges(cp, rs):
    import bisect
    k = bisect.bisect_right(rs, (cp, 0x110000)) - 1
    return k >= 0 and rs[k][0] <= cp <= rs[k][1]


def case_closure(rs):
    """the set together with all case-variants of its members"""
    rs = norm(rs)
    extra = []
    for cp, members in case_classes().items():
        if _in_ranges(cp, rs):
            extra += [(m, m) for m in members]
    return norm(list(rs) + extra)


_ENGINE = {}
_ALL = None


def engine_set(src, flags):
    """the set of single characters matched by the one-character Python pattern `src` under `flags`, read off the re engine itself
    (the semantics of Python's IGNORECASE on literals and sets is part of the target language, not of the code under verification)"""
    global _ALL
    key = (src, flags)
    if key not in _ENGINE:
        if _ALL is None:
            _ALL = ''.join(map(chr, range(0x110000)))
        hits = re.compile(src, flags).findall(_ALL)
        _ENGINE[key] = norm([(ord(h), ord(h)) for h in hits])
    return _ENGINE[key]


def _esc(cp):
    return '\\U%08x' % cp


def from_sre(text, flags=0):
    parsed = sre_parse.parse(text, flags)
    flags = parsed.state.flags
    icase = [bool(flags & re.IGNORECASE)]       # scoped by (?-i:...) groups
    eflags = re.IGNORECASE | (flags & re.DOTALL)

    def set_source(op, av):
        if op is sc.LITERAL:
            return _esc(av)
        if op is sc.NOT_LITERAL:
            return '[^%s]' % _esc(av)
        out = ['[']
        for o, a in av:
            if o is sc.NEGATE:
                out.append('^')
            elif o is sc.LITERAL:
                out.append(_esc(a))
            elif o is sc.RANGE:
                out.append('%s-%s' % (_esc(a[0]), _esc(a[1])))
            elif o is sc.CATEGORY:
                nm = str(a).replace('CATEGORY_UNI_', 'CATEGORY_')
                out.append({'CATEGORY_DIGIT': '\\d', 'CATEGORY_NOT_DIGIT': '\\D', 'CATEGORY_WORD': '\\w', 'CATEGORY_NOT_WORD': '\\W',
                            'CATEGORY_SPACE': '\\s', 'CATEGORY_NOT_SPACE': '\\S'}[nm])
            else:
                raise NotRegular('charset item %s' % o)
        return ''.join(out) + ']'

    def item(op, av):
        if icase[0] and op in (sc.LITERAL, sc.NOT_LITERAL, sc.IN):
            return ('set', engine_set(set_source(op, av), eflags))
        if op is sc.LITERAL:
            return ('set', [(av, av)])
        if op is sc.NOT_LITERAL:
            return ('set', comp([(av, av)]))
        if op is sc.ANY:
            return ('set', ANY if flags & re.DOTALL else comp(NL))
        if op is sc.IN:
            neg = False
            rs = []
            for o, a in av:
                if o is sc.NEGATE:
                    neg = True
                elif o is sc.LITERAL:
                    rs.append((a, a))
                elif o is sc.RANGE:
                    rs.append(a)
                elif o is sc.CATEGORY:
                    nm = str(a)
                    base = {'CATEGORY_DIGIT': 'd', 'CATEGORY_WORD': 'w', 'CATEGORY_SPACE': 's'}
                    k = nm.replace('CATEGORY_NOT_', 'CATEGORY_').replace('CATEGORY_UNI_', 'CATEGORY_')
                    c = py_category(base[k])
                    rs += comp(c) if 'NOT_' in nm else c
                else:
                    raise NotRegular('charset item %s' % o)
            rs = norm(rs)
            return ('set', comp(rs) if neg else rs)
        if op is sc.SUBPATTERN:
            if av[1] or av[2]:
                if (av[1] | av[2]) & (re.DOTALL | re.MULTILINE):
                    raise NotRegular('scoped s/m flags')
                saved = icase[0]
                if av[1] & re.IGNORECASE:
                    icase[0] = True
                if av[2] & re.IGNORECASE:
                    icase[0] = False          # (?-i:...) around a \p{..} group
                try:
                    return seq(av[3])
                finally:
                    icase[0] = saved
            return seq(av[3])
        if op is sc.BRANCH:
            return ('alt', [seq(x) for x in av[1]])
        if op in (sc.MAX_REPEAT, sc.MIN_REPEAT):
            lo, hi, sub = av
            return ('rep', lo, None if hi is sc.MAXREPEAT else hi, seq(sub))
        if op is sc.AT:
            if av in (sc.AT_BEGINNING, sc.AT_BEGINNING_STRING) and not (flags & re.MULTILINE):
                return ('bol',)
            if av is sc.AT_END and not (flags & re.MULTILINE):
                return ('eol_py',)
            if av is sc.AT_END_STRING:
                return ('eos',)
            raise NotRegular('anchor %s' % av)
        if op is sc.GROUPREF:
            return ('sym', av)      # back-reference as an uninterpreted symbol (structure only, see compare())
        if op is sc.ASSERT:
            if av[0] != 1:
                raise NotRegular('look-behind')
            return ('look', seq(av[1]))
        if op is sc.ASSERT_NOT:
            if av[0] != 1:
                raise NotRegular('negative look-behind')
            return ('nlook', seq(av[1]))
        raise NotRegular('%s' % op)

    def seq(sp):
        return ('cat', [item(op, av) for op, av in sp])
    return seq(parsed)


# ---------------------------------------------------------------------------------------------------
# reference XSD / XPath regex parser

SINGLE_ESC = {'n': 10, 'r': 13, 't': 9}
META = '\\|.?*+(){}-[]^$'


class XsdRef:
    """pattern -> IR according to XML Schema Part 2 (appendix F) and, with xpath=True, the XPath F&O 7.6.1 extensions
    (^ $ anchors, non-capturing groups, reluctant quantifiers).  Raises Invalid / NotRegular."""

    def __init__(self, pattern, xsd_version='1.0', xpath=False, dotall=False, blocks=None, icase=False):
        self.icase = icase      # F&O 5.6.2 flag i: normal characters and character ranges also match their case-variants
        self.p = pattern
        self.i = 0
        self.v = xsd_version
        self.xpath = xpath
        self.dotall = dotall
        self.blocks = blocks or {}
        self.groups = 0

    def parse(self):
        r = self.regexp()
        if self.i != len(self.p):
            raise Invalid('unexpected %r at %d' % (self.p[self.i], self.i))
        return r

    def peek(self, k=0):
        return self.p[self.i + k] if self.i + k < len(self.p) else ''

    def regexp(self):
        xs = [self.branch()]
        while self.peek() == '|':
            self.i += 1
            xs.append(self.branch())
        return xs[0] if len(xs) == 1 else ('alt', xs)

    def branch(self):
        xs = []
        while self.i < len(self.p) and self.peek() not in '|)':
            xs.append(self.piece())
        return ('cat', xs)

    def piece(self):
        a = self.atom()
        c = self.peek()
        if c and c in '?*+':
            self.i += 1
            lo, hi = {'?': (0, 1), '*': (0, None), '+': (1, None)}[c]
            a = ('rep', lo, hi, a)
        elif c == '{':
            m = re.match(r'\{(\d+)(,(\d*))?\}', self.p[self.i:])
            if not m:
                raise Invalid('bad quantifier at %d' % self.i)
            self.i += len(m.group())
            lo = int(m.group(1))
            hi = lo if m.group(2) is None else (int(m.group(3)) if m.group(3) else None)
            if hi is not None and hi < lo:
                raise Invalid('quantity range reversed')
            a = ('rep', lo, hi, a)
        else:
            return a
        if self.peek() and self.peek() in '?*+{':
            if self.xpath and self.peek() == '?':
                self.i += 1          # reluctant quantifier: same language
            else:
                raise Invalid('double quantifier at %d' % self.i)
        return a

    def atom(self):
        c = self.peek()
        if c == '(':
            self.i += 1
            if self.peek() == '?':
                if self.xpath and self.peek(1) == ':':
                    self.i += 2
                else:
                    raise Invalid('(? extension')
            else:
                self.groups += 1
            r = self.regexp()
            if self.peek() != ')':
                raise Invalid('unterminated group')
            self.i += 1
            return r
        if c == '[':
            return ('set', self.char_class_expr())
        if c == '.':
            self.i += 1
            return ('set', ANY if self.dotall else comp([(10, 10), (13, 13)]))
        if c == '\\' and self.xpath and self.peek(1).isdigit():
            # back-reference \N: the longest digit string N with 1 <= N <= number of groups opened so far (F&O 7.6.1)
            j = self.i + 1
            n = int(self.p[j])
            if n < 1 or n > self.groups:
                raise Invalid('back-reference to a missing group')
            j += 1
            while j < len(self.p) and self.p[j].isdigit() and n * 10 + int(self.p[j]) <= self.groups:
                n = n * 10 + int(self.p[j])
                j += 1
            self.i = j
            return ('sym', n)
        if c == '\\':
            return ('set', self.escape(in_class=False))
        if c in '?*+{':
            raise Invalid('quantifier without atom at %d' % self.i)
        if c in '}])':
            raise Invalid('unexpected %r at %d' % (c, self.i))
        if self.xpath and c == '^':
            self.i += 1
            return ('bol',)
        if self.xpath and c == '$':
            self.i += 1
            return ('eos',)
        self.i += 1
        return ('set', case_closure([(ord(c), ord(c))]) if self.icase else [(ord(c), ord(c))])

    def escape(self, in_class):
        """at a backslash: returns a range list"""
        c = self.peek(1)
        if not c:
            raise Invalid('dangling backslash')
        self.i += 2
        if c in SINGLE_ESC:
            return [(SINGLE_ESC[c], SINGLE_ESC[c])]
        if c in META:
            if c == '$' and not self.xpath:
                raise Invalid('\\$ is not an XSD escape')
            return [(ord(c), ord(c))]
        if c == 'd':
            return ND()
        if c == 'D':
            return comp(ND())
        if c == 's':
            return XSD_SPACE
        if c == 'S':
            return comp(XSD_SPACE)
        if c == 'w':
            return xsd_word()
        if c == 'W':
            return comp(xsd_word())
        if c == 'i':
            return NAME_START
        if c == 'I':
            return comp(NAME_START)
        if c == 'c':
            return NAME_CHAR
        if c == 'C':
            return comp(NAME_CHAR)
        if c in 'pP':
            m = re.match(r'\{([A-Za-z0-9\-]+)\}', self.p[self.i:])
            if not m:
                raise Invalid('bad \\p')
            self.i += len(m.group())
            name = m.group(1)
            if name.startswith('Is'):
                if name[2:] not in self.blocks:
                    if self.v == '1.0':
                        raise Invalid('unknown block ' + name)
                    rs = ANY       # XSD 1.1: an unknown block matches every character
                    return rs if c == 'p' else rs   # noqa (1.1 says both \p and \P of unknown block match all)
                rs = self.blocks[name[2:]]
            else:
                try:
                    rs = category(name)
                except KeyError:
                    raise Invalid('unknown category ' + name)
            return rs if c == 'p' else comp(rs)
        if c.isdigit():
            if in_class or not self.xpath:
                raise Invalid('back-reference not allowed here')
            raise NotRegular('back-reference')
        raise Invalid('unknown escape \\' + c)

    def char_class_expr(self):
        assert self.peek() == '['
        self.i += 1
        neg = False
        if self.peek() == '^':
            neg = True
            self.i += 1
        rs = []
        plain = []          # multi-character escapes: not affected by the i flag
        first = True
        sub = None
        while True:
            c = self.peek()
            if c == '':
                raise Invalid('unterminated character class')
            if c == ']':
                if first:
                    raise Invalid('empty character class')
                self.i += 1
                break
            if c == '-' and self.peek(1) == '[':
                if first:
                    raise Invalid('subtraction from empty group')
                self.i += 1
                sub = self.char_class_expr()
                if self.peek() != ']':
                    raise Invalid('missing ] after subtraction')
                self.i += 1
                break
            if c == '[':
                raise Invalid('[ inside character class')
            # one charOrEsc or multi-char escape
            if c == '\\':
                st = self.escape(in_class=True)
                single = len(st) == 1 and st[0][0] == st[0][1] and self.p[self.i - 1] in (META + 'nrt')
            else:
                if c == '-' and not first and self.peek(1) != ']' and not (self.peek(1) == '-' and self.peek(2) == '['):
                    # a bare hyphen in the middle of a group
                    if self.v == '1.0':
                        raise Invalid('unescaped hyphen inside character group')
                self.i += 1
                st = [(ord(c), ord(c))]
                single = True
            first = False
            if single and self.peek() == '-' and self.peek(1) not in ('[', ']', ''):
                # range  s-e
                self.i += 1
                if self.peek() == '\\':
                    en = self.escape(in_class=True)
                    if not (len(en) == 1 and en[0][0] == en[0][1] and self.p[self.i - 1] in (META + 'nrt')):
                        raise Invalid('multi-character escape as range end')
                    hi = en[0][0]
                else:
                    if self.peek() == '-':
                        raise Invalid('invalid range end')
                    hi = ord(self.peek())
                    self.i += 1
                lo = st[0][0]
                if hi < lo:
                    raise Invalid('reversed range')
                rs.append((lo, hi))
            elif single:
                rs += st
            else:
                plain += st
        if self.icase:
            rs = case_closure(rs)
        rs = norm(list(rs) + plain)
        if neg:
            rs = comp(rs)
        if sub is not None:
            rs = diff(rs, sub)
        return rs


# ---------------------------------------------------------------------------------------------------
# IR -> z3 regex over a minterm alphabet

def collect_sets(ir, acc):
    t = ir[0]
    if t == 'set':
        acc.append(ir[1])
    elif t in ('cat', 'alt'):
        for x in ir[1]:
            collect_sets(x, acc)
    elif t == 'rep':
        collect_sets(ir[3], acc)
    elif t in ('look', 'nlook'):
        collect_sets(ir[1], acc)


def collect_syms(ir):
    t = ir[0]
    if t == 'sym':
        return [ir[1]]
    if t in ('cat', 'alt'):
        return [n for x in ir[1] for n in collect_syms(x)]
    if t == 'rep':
        return collect_syms(ir[3])
    if t in ('look', 'nlook'):
        return collect_syms(ir[1])
    return []


def minterms(sets):
    pts = {0, MAXU + 1}
    for rs in sets:
        for a, b in rs:
            pts.add(a)
            pts.add(b + 1)
    pts = sorted(pts)
    import bisect
    starts = [[a for a, _ in rs] for rs in sets]
    sig = {}
    for i in range(len(pts) - 1):
        a, b = pts[i], pts[i + 1] - 1
        key = []
        for rs, st in zip(sets, starts):
            j = bisect.bisect_right(st, a) - 1
            key.append(j >= 0 and rs[j][0] <= a <= rs[j][1])
        sig.setdefault(tuple(key), []).append((a, b))
    return list(sig.items())


BASE = 0x100      # minterm class k is the z3 character chr(BASE + k)


class Alphabet:
    def __init__(self, irs):
        self.sets = [ANY, NL]
        for ir in irs:
            collect_sets(ir, self.sets)
        self.classes = minterms(self.sets)
        self.index = {}
        for i, rs in enumerate(self.sets):
            self.index.setdefault(id(rs), i)
        if len(self.classes) > 0x2F000:
            raise NotRegular('too many minterm classes')
        self.syms = sorted({n for ir in irs for n in collect_syms(ir)})

    def S(self, rs):
        i = self.index[id(rs)]
        syms = [k for k, (sg, _) in enumerate(self.classes) if sg[i]]
        if not syms:
            return z3.Empty(z3.ReSort(z3.StringSort()))
        parts = []
        s = p = syms[0]
        for k in syms[1:] + [None]:
            if k is not None and k == p + 1:
                p = k
                continue
            parts.append(z3.Range(chr(BASE + s), chr(BASE + p)) if p > s else z3.Re(chr(BASE + s)))
            if k is not None:
                s = p = k
        return parts[0] if len(parts) == 1 else z3.Union(*parts)

    def decode(self, zstr):
        raw = re.sub(r'\\u\{([0-9a-fA-F]+)\}', lambda m: chr(int(m.group(1), 16)), zstr)
        out = []
        for c in raw:
            k = ord(c) - BASE
            out.append(chr(self.classes[k][1][0][0]) if k < len(self.classes) else '\\%d' % self.syms[k - len(self.classes)])
        return ''.join(out)

    def representative(self, k):
        return chr(self.classes[k][1][0][0])


def contains_look(ir):
    t = ir[0]
    if t in ('look', 'nlook', 'eol_py', 'eos'):
        return True
    if t in ('cat', 'alt'):
        return any(contains_look(y) for y in ir[1])
    if t == 'rep':
        return contains_look(ir[3])
    return False


def to_z3(ir, alpha):
    """continuation-passing translation so that look-aheads and end anchors are intersected with the tail.
    The result is the language of FULL matches (match from position 0 to the end of the subject)."""
    EPS = z3.Re("")
    SIGSTAR = z3.Star(alpha.S(alpha.sets[0]))
    NLr = alpha.S(alpha.sets[1])

    def cat(a, b):
        if b is None:
            return a
        return z3.Concat(a, b)

    def go(x, tail):
        t = x[0]
        if t == 'set':
            return cat(alpha.S(x[1]), tail)
        if t == 'sym':
            # an uninterpreted extra letter: equal languages over the extended alphabet <=> the back-references sit at the
            # same places with the same group numbers (the matching semantics of a back-reference is not modelled)
            return cat(z3.Re(chr(BASE + len(alpha.classes) + alpha.syms.index(x[1]))), tail)
        if t == 'cat':
            r = tail
            for y in reversed(x[1]):
                r = go(y, r)
            return r if r is not None else EPS
        if t == 'alt':
            xs = [go(y, tail) for y in x[1]]
            return xs[0] if len(xs) == 1 else z3.Union(*xs)
        if t == 'rep':
            _, lo, hi, sub = x
            if contains_look(sub):
                if (lo, hi) == (0, 1):
                    return z3.Union(tail if tail is not None else EPS, go(sub, tail))
                if (lo, hi) == (1, 1):
                    return go(sub, tail)
                raise NotRegular('anchor or look-ahead under repetition')
            r = go(sub, None)
            if hi is None:
                rr = z3.Star(r) if lo == 0 else z3.Plus(r) if lo == 1 else z3.Concat(z3.Loop(r, lo, lo), z3.Star(r))
            elif hi == 0:
                rr = EPS
            else:
                rr = z3.Loop(r, lo, hi)
            return cat(rr, tail)
        rest = tail if tail is not None else EPS
        if t == 'look':
            return z3.Intersect(z3.Concat(go(x[1], None), SIGSTAR), rest)
        if t == 'nlook':
            return z3.Intersect(z3.Complement(z3.Concat(go(x[1], None), SIGSTAR)), rest)
        if t == 'bol':
            return rest          # only meaningful at position 0 (callers check)
        if t == 'eos':
            return z3.Intersect(EPS, rest)
        if t == 'eol_py':        # Python `$` without MULTILINE: at the end, or before a final newline
            return z3.Intersect(z3.Union(EPS, NLr), rest)
        raise NotRegular(t)
    return go(ir, None)


def bol_only_initial(ir, initial=True):
    """True when ('bol',) occurs only where it is the first thing matched (so that it is a no-op in a full match)."""
    t = ir[0]
    if t == 'bol':
        return initial
    if t == 'cat':
        ok = True
        for y in ir[1]:
            if not bol_only_initial(y, initial):
                ok = False
            if y[0] != 'bol':
                initial = False
        return ok
    if t == 'alt':
        return all(bol_only_initial(y, initial) for y in ir[1])
    if t == 'rep':
        return bol_only_initial(ir[3], False) if ir[3][0] != 'bol' else False
    if t in ('look', 'nlook'):
        return bol_only_initial(ir[1], False)
    return True


def compare(ir1, ir2, mode='equal', timeout_ms=30000, wrap=None):
    """mode: 'equal' (xor), 'sub' (L1 subset of L2: witness in L1 \\ L2).  wrap(alpha, r2) may post-process the reference language.
    Returns (result, witness or None, n_classes, seconds)."""
    import time
    for ir in (ir1, ir2):
        if not bol_only_initial(ir):
            raise NotRegular('^ not at the start')
    alpha = Alphabet([ir1, ir2])
    r1 = to_z3(ir1, alpha)
    r2 = to_z3(ir2, alpha)
    if wrap is not None:
        r2 = wrap(alpha, r2)
    s = z3.String('s')
    sol = z3.Solver()
    sol.set('timeout', timeout_ms)
    if mode == 'equal':
        sol.add(z3.Xor(z3.InRe(s, r1), z3.InRe(s, r2)))
    else:
        sol.add(z3.InRe(s, r1), z3.Not(z3.InRe(s, r2)))
    t = time.time()
    res = str(sol.check())
    dt = time.time() - t
    wit = None
    if res == 'sat':
        wit = alpha.decode(sol.model().eval(s, model_completion=True).as_string())
    return res, wit, len(alpha.classes), dt


def member_witness(ir, timeout_ms=10000):
    """a string of the language (vacuity guard): returns the decoded witness or None"""
    alpha = Alphabet([ir])
    s = z3.String('s')
    sol = z3.Solver()
    sol.set('timeout', timeout_ms)
    sol.add(z3.InRe(s, to_z3(ir, alpha)))
    if str(sol.check()) == 'sat':
        return alpha.decode(sol.model().eval(s, model_completion=True).as_string())
    return None


XSD_WRAPPER_HEAD = '^(?:'
XSD_WRAPPER_TAIL = r')$(?!\n\Z)'


def strip_xsd_wrapper(py):
    """translate_pattern(anchors=False) emits ^(?:CORE)$(?!\\n\\Z): Python `$` may match before a final newline and the negative
    look-ahead excludes exactly that case, i.e. the wrapper is a full match of CORE.  Returns CORE or None."""
    if py.startswith(XSD_WRAPPER_HEAD) and py.endswith(XSD_WRAPPER_TAIL):
        return py[len(XSD_WRAPPER_HEAD):-len(XSD_WRAPPER_TAIL)]
    return None
