"""E2 — translate closed Python kernels, *from the current source*, into z3 terms.

`Fn(pyfunc, stubs=...)` parses `inspect.getsource(pyfunc)` and evaluates the AST symbolically over z3 Int/Real terms: control flow
is merged with `If`, every `return`/`raise` is collected as an (path-condition, outcome) pair.  Python `//` and `%` get floor
semantics.  Anything that is not understood raises `Unsupported` — an obligation is then reported "not encodable", never skipped.

Library calls the kernels make are replaced by *contract stubs* (listed by each obligation in its evidence):
  math.isnan/isinf(x)            -> False                       (finite operands are the stated assumption)
  Decimal(x), float(x), int(x)   -> x for an integral/rational term (exact conversion), int(x) requires an Int-sorted term
  type(v)(x)                     -> x                           (conversion back to the carrier type is exact for the result)
  d.quantize(Decimal('1'), rounding=ROUND_HALF_UP|ROUND_HALF_DOWN|ROUND_HALF_EVEN) -> nearest integer, ties away from zero /
                                    toward zero / to even  (decimal module documentation)
  round(x)                       -> nearest integer, ties to even (Python data model)
  s[i:j], s[slice(i, j)] on an abstract string of length n -> the index interval [max(i,0), min(j,n)) (i, j proved non-negative)
  len(s)                         -> n
  isinstance(v, T)               -> decided from the declared carrier type of v
  try/except                     -> body only; "no stubbed call raises" is an assumption
floor/ceil are introduced with fresh Int variables f with f <= x < f+1 (side constraints collected in `Fn.side`).
"""
import ast
import inspect
import textwrap
import decimal
import math
import z3


_FRESH = [0]


class Unsupported(Exception):
    pass


class Sym:
    """A symbolic parameter with a declared Python carrier type."""
    def __init__(self, term, pytype):
        self.term = term
        self.pytype = pytype


class Obj:
    """An object known only through some attributes (e.g. `self` with class attributes, `self.parser.version`)."""
    def __init__(self, name, attrs=None, term=None, pytype=None, length=None):
        self.name = name
        self.attrs = attrs or {}
        self.term = term
        self.pytype = pytype
        self.length = length

    def __repr__(self):
        return '<Obj %s>' % self.name


class AbsStr:
    """Abstract string of symbolic length n; only slicing and len() are supported."""
    def __init__(self, n):
        self.n = n


class StrSlice:
    """Result of slicing the abstract string: code points at 0-based indices lo <= k < hi (already clipped to the length)."""
    def __init__(self, lo, hi):
        self.lo, self.hi = lo, hi


class TypeOf:
    def __init__(self, v):
        self.v = v


class Raised:
    def __init__(self, label):
        self.label = label


def unwrap(v):
    if isinstance(v, (Sym, Obj)) and v.term is not None:
        return v.term
    return v


def is_z3(v):
    return isinstance(v, z3.ExprRef)


def is_term(v):
    return is_z3(v) or isinstance(v, (int, bool)) and not isinstance(v, Obj)


def pyfloordiv(a, b):
    """Python // on integer terms."""
    if isinstance(a, int) and isinstance(b, int):
        return a // b
    if isinstance(b, int):
        if b == 0:
            raise Unsupported('division by constant zero')
        q = a / b if b > 0 else (-a) / (-b)      # z3 div with positive divisor is floor division
        return q
    a_ = a if is_z3(a) else z3.IntVal(a)
    q = a_ / b   # Euclidean: a = b*q + r, 0 <= r < |b|
    return z3.If(b > 0, q, z3.If(a_ % b == 0, q, q - 1))


def pymod(a, b):
    if isinstance(a, int) and isinstance(b, int):
        return a % b
    if isinstance(b, int) and b > 0:
        return a % b
    return a - b * pyfloordiv(a, b)


class Fn:
    def __init__(self, pyfn, stubs=None, env=None, prefix='', side=None, notes=None):
        self.pyfn = pyfn
        src = textwrap.dedent(inspect.getsource(pyfn))
        mod = ast.parse(src)
        self.node = mod.body[0]
        if not isinstance(self.node, ast.FunctionDef):
            raise Unsupported('not a function definition')
        self.globals = dict(getattr(pyfn, '__globals__', {}))
        self.env = env or {}
        self.stubs = stubs or {}
        self.side = side if side is not None else []      # side constraints (fresh floor variables)
        self.notes = notes if notes is not None else []   # assumptions taken while translating (ignored handlers, asserts…)
        self.prefix = prefix or pyfn.__name__
        self._fresh = 0
        self.floors = []
        self.yields = []
        self.loop_positions = []

    # ------------------------------------------------------------------------------------------
    def fresh_int(self, tag):
        _FRESH[0] += 1          # global counter: a callee translated twice must not reuse variable names
        return z3.Int('%s!%s%d' % (self.prefix, tag, _FRESH[0]))

    def floor(self, x):
        """floor of a Real term through a fresh Int variable."""
        if isinstance(x, int):
            return x
        if x.sort() == z3.IntSort():
            return x
        f = self.fresh_int('fl')
        self.side.append(z3.And(z3.ToReal(f) <= x, x < z3.ToReal(f) + 1))
        # implied lemmas that keep branch-and-bound from diverging on unbounded mixed integer/real problems:
        # floor(a) - floor(b) is in {floor(c), floor(c)+1} whenever a - b is the rational constant c
        for t0, f0 in self.floors:
            d = z3.simplify(x - t0)
            if z3.is_rational_value(d):
                c = d.numerator_as_long() // d.denominator_as_long()
                if d.denominator_as_long() == 1:
                    self.side.append(f - f0 == c)
                else:
                    self.side.append(z3.And(f - f0 >= c, f - f0 <= c + 1))
        self.floors.append((x, f))
        return f

    def round_half(self, x, mode):
        """nearest integer of a Real term; mode in up (away from zero), down (toward zero), even."""
        if isinstance(x, int) or x.sort() == z3.IntSort():
            return x
        f = self.floor(x)
        frac = x - z3.ToReal(f)
        half = z3.RealVal('1/2')
        if mode == 'away':
            tie = z3.If(x >= 0, f + 1, f)
        elif mode == 'toward':
            tie = z3.If(x >= 0, f, f + 1)
        elif mode == 'even':
            tie = z3.If(f % 2 == 0, f, f + 1)
        elif mode == 'ceil':      # ties toward +infinity
            tie = f + 1
        else:
            raise Unsupported('rounding mode ' + mode)
        return z3.If(frac > half, f + 1, z3.If(frac < half, f, tie))

    # ------------------------------------------------------------------------------------------
    def __call__(self, *args, **kwargs):
        """Returns the list of (path condition, outcome) pairs; outcome is a value or Raised."""
        a = self.node.args
        names = [x.arg for x in a.args]
        state = {}
        defaults = a.defaults
        for i, d in enumerate(defaults):
            state[names[len(names) - len(defaults) + i]] = self.expr(d, {})
        state.update(zip(names, args))
        state.update(kwargs)
        for n in names:
            if n not in state:
                raise Unsupported('missing argument ' + n)
        rets = []
        fall = self.block(self.node.body, state, z3.BoolVal(True), rets)
        rets.append((fall, None))   # falling off the end returns None
        return rets

    def value(self, rets, allow_none=False):
        """Merge outcomes: (returned value term, raised condition, {label: condition})."""
        val = None
        raised = z3.BoolVal(False)
        labels = {}
        for cond, v in reversed(rets):
            if isinstance(v, Raised):
                raised = z3.Or(raised, cond)
                labels[v.label] = z3.Or(labels.get(v.label, z3.BoolVal(False)), cond)
            elif v is None:
                if allow_none or z3.is_false(z3.simplify(cond)):
                    continue
                raise Unsupported('a path returns None')
            else:
                v = unwrap(v)
                val = v if val is None else self.ite(cond, v, val)
        return val, z3.simplify(raised), labels

    def ite(self, c, a, b):
        a, b = unwrap(a), unwrap(b)
        if isinstance(a, tuple) and isinstance(b, tuple) and len(a) == len(b):
            if all(isinstance(x, int) for x in a + b):
                return CondTuple(c, a, b)     # two constant tables selected by a condition
            return tuple(self.ite(c, x, y) for x, y in zip(a, b))
        if a == '' and isinstance(b, StrSlice):
            a = StrSlice(0, 0)
        if b == '' and isinstance(a, StrSlice):
            b = StrSlice(0, 0)
        if isinstance(a, StrSlice) and isinstance(b, StrSlice):
            return StrSlice(self.ite(c, a.lo, b.lo), self.ite(c, a.hi, b.hi))
        if a is b:
            return a
        if is_term(a) and is_term(b):
            if isinstance(a, bool) and isinstance(b, bool):
                return z3.If(c, z3.BoolVal(a), z3.BoolVal(b))
            if isinstance(a, bool):
                a = z3.BoolVal(a)
            if isinstance(b, bool):
                b = z3.BoolVal(b)
            if is_z3(a) and is_z3(b) and a.sort() != b.sort():
                if a.sort() == z3.IntSort():
                    a = z3.ToReal(a)
                if b.sort() == z3.IntSort():
                    b = z3.ToReal(b)
            return z3.If(c, a, b)
        raise Unsupported('cannot merge %r and %r' % (a, b))

    # ------------------------------------------------------------------------------------------
    def block(self, stmts, st, pc, rets):
        """returns the path condition under which control falls through the block"""
        for s in stmts:
            if (pc is False) or (is_z3(pc) and z3.is_false(z3.simplify(pc))):
                return z3.BoolVal(False)     # unreachable remainder of the block
            if isinstance(s, ast.Expr) and isinstance(s.value, ast.Yield):
                self.yields.append((pc, self.expr(s.value.value, st) if s.value.value is not None else None))
                continue
            if isinstance(s, ast.For):
                self.for_enumerate(s, st, pc, rets)
                continue
            if isinstance(s, ast.Expr):
                if isinstance(s.value, ast.Constant):
                    continue
                self.notes.append('expression statement ignored: ' + ast.unparse(s)[:60])
                continue
            if isinstance(s, ast.Pass):
                continue
            if isinstance(s, ast.Assert):
                self.notes.append('assert assumed: ' + ast.unparse(s.test)[:60])
                continue
            if isinstance(s, ast.Return):
                rets.append((pc, self.expr(s.value, st) if s.value is not None else None))
                return z3.BoolVal(False)
            if isinstance(s, ast.Raise):
                rets.append((pc, Raised(self.raise_label(s))))
                return z3.BoolVal(False)
            if isinstance(s, ast.AnnAssign):
                if s.value is None:
                    continue
                s = ast.Assign([s.target], s.value)
            if isinstance(s, ast.Assign):
                v = self.expr(s.value, st)
                for t in s.targets:
                    if isinstance(t, ast.Name):
                        st[t.id] = v
                    elif isinstance(t, ast.Tuple) and isinstance(v, tuple) and len(v) == len(t.elts) \
                            and all(isinstance(e, ast.Name) for e in t.elts):
                        for e, x in zip(t.elts, v):
                            st[e.id] = x
                    else:
                        raise Unsupported('assignment target ' + ast.dump(t)[:60])
                continue
            if isinstance(s, ast.AugAssign) and isinstance(s.target, ast.Name):
                st[s.target.id] = self.binop(s.op, st[s.target.id], self.expr(s.value, st))
                continue
            if isinstance(s, ast.If):
                c = self.cond(s.test, st)
                if isinstance(c, bool):
                    pc = self.block(s.body if c else s.orelse, st, pc, rets)
                    continue
                st1, st2 = dict(st), dict(st)
                f1 = self.block(s.body, st1, z3.And(pc, c), rets)
                f2 = self.block(s.orelse, st2, z3.And(pc, z3.Not(c)), rets)
                self.merge(st, c, st1, st2, f1, f2)
                pc = z3.Or(f1, f2)
                continue
            if isinstance(s, ast.Match):
                subj = unwrap(self.expr(s.subject, st))
                fall = pc
                branches = []
                for case in s.cases:
                    stc = dict(st)
                    c = self.pattern(case.pattern, subj, stc)
                    if case.guard is not None:
                        g = self.cond(case.guard, stc)
                        c = z3.And(c, g) if not isinstance(g, bool) else (c if g else z3.BoolVal(False))
                    f = self.block(case.body, stc, z3.And(fall, c), rets)
                    branches.append((c, stc, f))
                    fall = z3.And(fall, z3.Not(c))
                # merge states of falling-through branches (right to left)
                merged = dict(st)
                falls = [fall]
                for c, stc, f in reversed(branches):
                    nxt = dict(merged)
                    self.merge(nxt, c, stc, merged, f, z3.BoolVal(True))
                    merged = nxt
                    falls.append(f)
                st.clear()
                st.update(merged)
                pc = z3.Or(*falls)
                continue
            if isinstance(s, ast.Try):
                if s.finalbody:
                    raise Unsupported('try/finally')
                self.notes.append('try body only; handlers %s assumed not taken (stubbed calls do not raise)' % ', '.join(
                    ast.unparse(h.type) if h.type is not None else 'bare' for h in s.handlers))
                pc = self.block(s.body, st, pc, rets)
                if s.orelse:
                    pc = self.block(s.orelse, st, pc, rets)
                continue
            raise Unsupported(type(s).__name__ + ': ' + ast.unparse(s)[:80])
        return pc

    def for_enumerate(self, s, st, pc, rets):
        """`for pos, item in enumerate(<sequence>, start=k): body` where the body carries no state from one iteration to the next:
        the body is translated ONCE for an arbitrary position pos >= k (fresh Int); `yield`s inside are recorded with their
        condition.  The position variables are listed in self.loop_positions so that obligations can quantify over them."""
        it = s.iter
        if not (isinstance(it, ast.Call) and isinstance(it.func, ast.Name) and it.func.id == 'enumerate' and
                isinstance(s.target, ast.Tuple) and len(s.target.elts) == 2 and all(isinstance(e, ast.Name) for e in s.target.elts)):
            raise Unsupported('for loop shape: ' + ast.unparse(s)[:60])
        if s.orelse:
            raise Unsupported('for/else')
        start = 0
        if len(it.args) == 2:
            start = self.expr(it.args[1], st)
        for k in it.keywords:
            if k.arg == 'start':
                start = self.expr(k.value, st)
        assigned = {n.id for n in ast.walk(ast.Module(s.body, [])) if isinstance(n, ast.Name) and isinstance(n.ctx, ast.Store)}
        if assigned & set(st):
            raise Unsupported('loop-carried state: %s' % sorted(assigned & set(st)))
        for n in ast.walk(ast.Module(s.body, [])):
            if isinstance(n, (ast.Return, ast.Break, ast.Continue)):
                raise Unsupported('return/break/continue inside a loop')
        pos = self.fresh_int('pos')
        self.side.append(pos >= start)
        self.loop_positions.append(pos)
        st2 = dict(st)
        st2[s.target.elts[0].id] = pos
        st2[s.target.elts[1].id] = Obj('item@' + s.target.elts[1].id)
        self.notes.append('for-enumerate body translated once for an arbitrary position (no loop-carried state)')
        self.block(s.body, st2, pc, rets)

    def merge(self, st, c, st1, st2, f1, f2):
        dead1 = z3.is_false(z3.simplify(f1)) if is_z3(f1) else not f1
        dead2 = z3.is_false(z3.simplify(f2)) if is_z3(f2) else not f2
        for k in set(st1) | set(st2):
            a, b = st1.get(k), st2.get(k)
            if dead1 and not dead2:
                st[k] = b if k in st2 else a
            elif dead2 and not dead1:
                st[k] = a if k in st1 else b
            elif a is None or b is None:
                st[k] = a if b is None else b
            elif a is b:
                st[k] = a
            else:
                try:
                    st[k] = self.ite(c, a, b)
                except Unsupported:
                    st[k] = Poison(k)

    def raise_label(self, s):
        if s.exc is None:
            return 'reraise'
        for n in ast.walk(s.exc):
            if isinstance(n, ast.Constant) and isinstance(n.value, str) and n.value[:2].isupper() and len(n.value) == 8:
                return n.value
        if isinstance(s.exc, ast.Call):
            return ast.unparse(s.exc.func)
        return ast.unparse(s.exc)

    def pattern(self, p, subj, st):
        if isinstance(p, ast.MatchValue):
            return subj == self.expr(p.value, st)
        if isinstance(p, ast.MatchOr):
            return z3.Or(*[self.pattern(q, subj, st) for q in p.patterns])
        if isinstance(p, ast.MatchAs):
            if p.name:
                st[p.name] = subj
            return z3.BoolVal(True) if p.pattern is None else self.pattern(p.pattern, subj, st)
        raise Unsupported('pattern ' + ast.dump(p)[:60])

    # ------------------------------------------------------------------------------------------
    def cond(self, e, st):
        v = unwrap(self.expr(e, st))
        if isinstance(v, bool):
            return v
        if v is None:
            return False
        if isinstance(v, (int, str, tuple)):
            return bool(v)
        if is_z3(v):
            if z3.is_bool(v):
                return v
            return v != 0
        if isinstance(v, Poison):
            raise Unsupported('use of unmergeable variable ' + v.name)
        if hasattr(v, 'sym_bool'):
            return v.sym_bool(self)
        raise Unsupported('truth value of %r' % (v,))

    def trunc(self, x):
        """truncation toward zero of a Real term -> Int term"""
        if isinstance(x, int):
            return x
        if x.sort() == z3.IntSort():
            return x
        return z3.If(x >= 0, self.floor(x), -self.floor(-x))

    def typed_divmod(self, op, a, b, pa, pb):
        """// and % when a declared carrier type is Decimal or float (documented semantics of the decimal module: the integer
        quotient truncates toward zero and the remainder takes the sign of the dividend; float: floor semantics of the exact
        quotient — IEEE rounding is outside the claim).  The divisor must be a numeral so that the quotient stays linear."""
        if not (isinstance(b, int) or z3.is_rational_value(b) or z3.is_int_value(b)):
            raise Unsupported('non-constant divisor in Decimal/float division')
        ar = z3.ToReal(a) if is_z3(a) and a.sort() == z3.IntSort() else (z3.RealVal(a) if isinstance(a, int) else a)
        br = z3.RealVal(b) if isinstance(b, int) else (z3.ToReal(b) if b.sort() == z3.IntSort() else b)
        quo = ar / br
        if decimal.Decimal in (pa, pb) and float not in (pa, pb):
            q = self.trunc(quo)
            self.notes.append('Decimal // and %: quotient truncated toward zero, remainder has the sign of the dividend')
        else:
            q = self.floor(quo)
            self.notes.append('float // and %: floor of the exact quotient (IEEE rounding outside the claim)')
        if isinstance(op, ast.FloorDiv):
            return q
        return ar - br * z3.ToReal(q)

    def binop(self, op, a, b):
        """arithmetic with propagation of the declared carrier type (Decimal / float) of symbolic operands"""
        pa, pb = getattr(a, 'pytype', None), getattr(b, 'pytype', None)
        res = self._binop(op, a, b, pa, pb)
        pt = float if float in (pa, pb) else (decimal.Decimal if decimal.Decimal in (pa, pb) else None)
        if pt is not None and is_z3(res) and not z3.is_bool(res):
            return Sym(res, pt)
        return res

    def _binop(self, op, a, b, pa, pb):
        # contract objects (e.g. a modelled datetime) implement their own operators
        if hasattr(a, 'sym_binop'):
            return a.sym_binop(self, op, b, False)
        if hasattr(b, 'sym_binop'):
            return b.sym_binop(self, op, a, True)
        a, b = unwrap(a), unwrap(b)
        if isinstance(op, (ast.FloorDiv, ast.Mod)) and (pa in (decimal.Decimal, float) or pb in (decimal.Decimal, float)):
            return self.typed_divmod(op, a, b, pa, pb)
        if isinstance(a, (decimal.Decimal, int)) and isinstance(b, (decimal.Decimal, int)) and \
                (isinstance(a, decimal.Decimal) or isinstance(b, decimal.Decimal)) and isinstance(op, (ast.Div, ast.Mult)):
            return decimal.Decimal(a) / decimal.Decimal(b) if isinstance(op, ast.Div) else decimal.Decimal(a) * decimal.Decimal(b)
        if isinstance(a, decimal.Decimal) and a == a.to_integral_value():
            a = int(a)
        if isinstance(b, decimal.Decimal) and b == b.to_integral_value():
            b = int(b)
        if not (is_term(a) and is_term(b)):
            raise Unsupported('operands %r %r' % (a, b))
        if isinstance(op, ast.Add):
            return a + b
        if isinstance(op, ast.Sub):
            return a - b
        if isinstance(op, ast.Mult):
            return a * b
        if isinstance(op, ast.FloorDiv):
            self.need_int(a, b)
            return pyfloordiv(a, b)
        if isinstance(op, ast.Mod):
            self.need_int(a, b)
            return pymod(a, b)
        if isinstance(op, ast.Pow) and isinstance(a, int) and isinstance(b, int):
            return a ** b
        if isinstance(op, ast.Div):
            if isinstance(a, int) and isinstance(b, int):
                return z3.RealVal(a) / z3.RealVal(b)
            a = z3.ToReal(a) if is_z3(a) and a.sort() == z3.IntSort() else (z3.RealVal(a) if isinstance(a, int) else a)
            b = z3.ToReal(b) if is_z3(b) and b.sort() == z3.IntSort() else (z3.RealVal(b) if isinstance(b, int) else b)
            return a / b
        raise Unsupported('operator ' + type(op).__name__)

    @staticmethod
    def need_int(*vs):
        for v in vs:
            if is_z3(v) and v.sort() != z3.IntSort():
                raise Unsupported('// or % on a non-integer term')

    CMP = {ast.Lt: lambda a, b: a < b, ast.LtE: lambda a, b: a <= b, ast.Gt: lambda a, b: a > b,
           ast.GtE: lambda a, b: a >= b, ast.Eq: lambda a, b: a == b, ast.NotEq: lambda a, b: a != b}

    def compare(self, op, left, right):
        if isinstance(op, (ast.Is, ast.IsNot)):
            l, r = left, right
            if l is None or r is None:
                same = l is None and r is None
                if not same and (isinstance(l, Poison) or isinstance(r, Poison)):
                    raise Unsupported('identity test on unmergeable value')
                return same if isinstance(op, ast.Is) else not same
            raise Unsupported('identity comparison')
        left, right = unwrap(left), unwrap(right)
        if isinstance(left, decimal.Decimal):
            left = int(left) if left == left.to_integral_value() else z3.RealVal(str(left))
        if isinstance(right, decimal.Decimal):
            right = int(right) if right == right.to_integral_value() else z3.RealVal(str(right))
        if isinstance(left, str) and isinstance(right, str):
            return self.CMP[type(op)](left, right)
        if not (is_term(left) and is_term(right)):
            raise Unsupported('comparison of %r and %r' % (left, right))
        return self.CMP[type(op)](left, right)

    def expr(self, e, st):
        if isinstance(e, ast.Constant):
            return e.value
        if isinstance(e, ast.Name):
            if e.id in st:
                v = st[e.id]
                if isinstance(v, Poison):
                    raise Unsupported('use of unmergeable variable ' + e.id)
                return v
            if e.id in self.env:
                return self.env[e.id]
            if e.id in self.globals:
                return self.globals[e.id]
            import builtins
            if hasattr(builtins, e.id):
                return getattr(builtins, e.id)
            raise Unsupported('name ' + e.id)
        if isinstance(e, ast.Attribute):
            base = self.expr(e.value, st)
            if isinstance(base, Obj):
                if e.attr in base.attrs:
                    return base.attrs[e.attr]
                raise Unsupported('attribute %s.%s' % (base.name, e.attr))
            if hasattr(base, 'sym_attr'):
                return base.sym_attr(self, e.attr)
            if isinstance(base, (Sym, AbsStr)) or is_z3(base):
                return BoundMethod(base, e.attr)
            if inspect.ismodule(base) or inspect.isclass(base) or isinstance(base, (decimal.Decimal, str, int)):
                return getattr(base, e.attr)
            raise Unsupported('attribute on %r' % (base,))
        if isinstance(e, ast.Tuple):
            return tuple(self.expr(x, st) for x in e.elts)
        if isinstance(e, ast.UnaryOp):
            if isinstance(e.op, ast.Not):
                c = self.cond(e.operand, st)
                return (not c) if isinstance(c, bool) else z3.Not(c)
            v0 = self.expr(e.operand, st)
            v = unwrap(v0)
            if isinstance(e.op, ast.USub):
                pt = getattr(v0, 'pytype', None)
                return Sym(-v, pt) if pt in (decimal.Decimal, float) and is_z3(v) else -v
            if isinstance(e.op, ast.UAdd):
                return v
        if isinstance(e, ast.BinOp):
            return self.binop(e.op, self.expr(e.left, st), self.expr(e.right, st))
        if isinstance(e, ast.BoolOp):
            vs = []
            for v in e.values:          # short-circuit on concrete truth values, as Python does
                c = self.cond(v, st)
                if isinstance(e.op, ast.And) and c is False:
                    return False
                if isinstance(e.op, ast.Or) and c is True:
                    return True
                if not isinstance(c, bool):
                    vs.append(c)
            if isinstance(e.op, ast.And):
                return True if not vs else (vs[0] if len(vs) == 1 else z3.And(*vs))
            return False if not vs else (vs[0] if len(vs) == 1 else z3.Or(*vs))
        if isinstance(e, ast.Compare):
            left = self.expr(e.left, st)
            out = []
            for op, r in zip(e.ops, e.comparators):
                right = self.expr(r, st)
                out.append(self.compare(op, left, right))
                left = right
            if len(out) == 1:
                return out[0]
            if all(isinstance(x, bool) for x in out):
                return all(out)
            return z3.And(*[x if not isinstance(x, bool) else z3.BoolVal(x) for x in out])
        if isinstance(e, ast.IfExp):
            c = self.cond(e.test, st)
            if isinstance(c, bool):
                return self.expr(e.body if c else e.orelse, st)
            return self.ite(c, self.expr(e.body, st), self.expr(e.orelse, st))
        if isinstance(e, ast.Subscript):
            base = self.expr(e.value, st)
            if isinstance(base, AbsStr):
                if isinstance(e.slice, ast.Slice):
                    if e.slice.step is not None:
                        raise Unsupported('slice step')
                    lo = self.expr(e.slice.lower, st) if e.slice.lower is not None else 0
                    hi = self.expr(e.slice.upper, st) if e.slice.upper is not None else None
                    return self.str_slice(base, lo, hi)
                idx = self.expr(e.slice, st)
                if isinstance(idx, SliceObj):
                    return self.str_slice(base, idx.lo, idx.hi)
                raise Unsupported('string index')
            if isinstance(base, CondTuple):
                base = tuple(z3.If(base.c, x, y) for x, y in zip(base.a, base.b))
            if isinstance(base, tuple):
                idx = unwrap(self.expr(e.slice, st))
                if isinstance(idx, int):
                    return base[idx]
                out = None
                for i in reversed(range(len(base))):
                    out = base[i] if out is None else z3.If(idx == i, base[i], out)
                self.side_oob.append(z3.Or(idx < 0, idx >= len(base)))
                return out
            raise Unsupported('subscript of %r' % (base,))
        if isinstance(e, ast.Call):
            return self.call(e, st)
        raise Unsupported(type(e).__name__ + ': ' + ast.unparse(e)[:80])

    side_oob = None

    def str_slice(self, s, lo, hi):
        lo = unwrap(lo)
        hi = s.n if hi is None else unwrap(hi)
        # python semantics coincide with the interval semantics only for non-negative indices: record the obligation
        self.nonneg.append(lo)
        if hi is not s.n:
            self.nonneg.append(hi)
        mn = lambda a, b: z3.If(a <= b, a, b)   # noqa: E731
        return StrSlice(lo, mn(hi, s.n) if hi is not s.n else s.n)

    nonneg = None

    # ------------------------------------------------------------------------------------------
    def call(self, e, st):
        # stubs keyed by the unparsed callee text get the first chance
        key = ast.unparse(e.func)
        if key in self.stubs:
            args = [self.expr(a, st) for a in e.args]
            kwargs = {k.arg: self.expr(k.value, st) for k in e.keywords}
            return self.stubs[key](self, *args, **kwargs)
        f = self.expr(e.func, st)
        if f is sum and len(e.args) == 1 and isinstance(e.args[0], ast.GeneratorExp):
            return self.gen_sum(e.args[0], st)
        args = [self.expr(a, st) for a in e.args]
        kwargs = {k.arg: self.expr(k.value, st) for k in e.keywords}
        if isinstance(f, BoundMethod):
            name = 'method:' + f.attr
            if name in self.stubs:
                return self.stubs[name](self, f.recv, *args, **kwargs)
            if f.attr == 'quantize':
                return self.stub_quantize(f.recv, *args, **kwargs)
            if f.attr == 'adjusted' and not args and not kwargs:
                return self.stub_adjusted(f.recv)
            raise Unsupported('method ' + f.attr)
        if isinstance(f, SymCallable):
            return f.fn(self, *args, **kwargs)
        if isinstance(f, TypeOf):
            return args[0]
        if inspect.isbuiltin(f) and isinstance(getattr(f, '__self__', None), (decimal.Decimal, str, int)) and \
                not isinstance(f.__self__, bool) and all(isinstance(a, (int, str, decimal.Decimal)) for a in args) and not kwargs:
            return f(*args)      # pure method of an immutable constant on constant arguments: evaluated concretely
        if f is type and len(args) == 1:
            return TypeOf(args[0])
        if f is math.isfinite:
            self.notes.append('math.isfinite(...) = True (finite operands assumed)')
            return True
        if f is math.fmod:
            a, b = args
            ar, br = unwrap(a), unwrap(b)
            if not (isinstance(br, int) or z3.is_rational_value(br) or z3.is_int_value(br)):
                raise Unsupported('non-constant divisor in fmod')
            ar = z3.ToReal(ar) if is_z3(ar) and ar.sort() == z3.IntSort() else (z3.RealVal(ar) if isinstance(ar, int) else ar)
            br = z3.RealVal(br) if isinstance(br, int) else (z3.ToReal(br) if br.sort() == z3.IntSort() else br)
            self.notes.append('math.fmod(a, b) = a - b * trunc(a / b)')
            return ar - br * z3.ToReal(self.trunc(ar / br))
        if f in (math.isnan, math.isinf):
            self.notes.append('math.%s(...) = False (finite operands assumed)' % f.__name__)
            return False
        if getattr(f, '__self__', None) is decimal.Decimal and getattr(f, '__name__', '') == 'from_float':
            return unwrap(args[0])
        if f is decimal.Context:
            self.notes.append('decimal.Context(prec=...) = a context with enough precision for an exact quantize')
            return ('decimal-context', kwargs.get('prec'))
        if f is decimal.Decimal:
            v = args[0]
            if isinstance(v, str):
                return decimal.Decimal(v)
            return unwrap(v)
        if f is float:
            return unwrap(args[0])
        if f is int:
            v = unwrap(args[0])
            if isinstance(v, int) or (is_z3(v) and v.sort() == z3.IntSort()):
                return v
            self.notes.append('int(x) = truncation toward zero')
            return self.trunc(v)
        if f is round and (len(args) == 1 or (len(args) == 2 and isinstance(args[1], int))):
            x = unwrap(args[0])
            k = args[1] if len(args) == 2 else 0
            self.notes.append('round(x%s) = nearest multiple of 10**%d, ties to even' % (', %d' % k if len(args) == 2 else '', -k))
            if isinstance(x, int) or x.sort() == z3.IntSort():
                if k >= 0:
                    return x
                m = 10 ** -k     # nearest multiple of m, ties to even, on integers: q = x // m, r = x % m
                q, r = pyfloordiv(x, m), pymod(x, m)
                return z3.If(2 * r > m, q + 1, z3.If(2 * r < m, q, z3.If(q % 2 == 0, q, q + 1))) * m
            if k == 0:
                return self.round_half(x, 'even')
            if k > 0:
                return z3.ToReal(self.round_half(x * (10 ** k), 'even')) / (10 ** k)
            return self.round_half(x / (10 ** -k), 'even') * (10 ** -k)
        if f is slice and len(args) == 2:
            return SliceObj(unwrap(args[0]), unwrap(args[1]))
        if f is len:
            v = args[0]
            if isinstance(v, AbsStr):
                return v.n
            if isinstance(v, Obj) and v.length is not None:
                return v.length
            if isinstance(v, (tuple, str)):
                return len(v)
            raise Unsupported('len of %r' % (v,))
        if f is isinstance:
            v, t = args
            pt = getattr(v, 'pytype', None)
            if pt is None:
                if isinstance(v, (int, str, bool)) or v is None:
                    return isinstance(v, t)
                raise Unsupported('isinstance of untyped value')
            return issubclass(pt, t)
        if f in (min, max) and len(args) == 2:
            a, b = unwrap(args[0]), unwrap(args[1])
            if isinstance(a, int) and isinstance(b, int):
                return f(a, b)
            return z3.If(a <= b, a, b) if f is min else z3.If(a >= b, a, b)
        if f is abs:
            pt = getattr(args[0], 'pytype', None)
            a = unwrap(args[0])
            r = abs(a) if isinstance(a, int) else z3.If(a >= 0, a, -a)
            return Sym(r, pt) if pt in (decimal.Decimal, float) and is_z3(r) else r
        if f is sum and len(e.args) == 1 and isinstance(e.args[0], ast.GeneratorExp):
            return self.gen_sum(e.args[0], st)
        if inspect.isfunction(f):
            modname = getattr(f, '__module__', '') or ''
            if modname.split('.')[0] in ('elementpath', 'calendar'):
                callee = Fn(f, stubs=self.stubs, env=self.env, prefix=self.prefix + '.' + f.__name__, side=self.side,
                            notes=self.notes)
                callee.nonneg, callee.side_oob, callee.floors = self.nonneg, self.side_oob, self.floors
                callee.callee_raises = self.callee_raises
                val, raised, _ = callee.value(callee(*args, **kwargs))
                if not z3.is_false(raised):
                    self.callee_raises.append(raised)
                return val
        raise Unsupported('call ' + ast.unparse(e)[:80])

    callee_raises = None

    def gen_sum(self, g, st):
        comp = g.generators[0]
        if len(g.generators) != 1 or comp.ifs or not isinstance(comp.target, ast.Name):
            raise Unsupported('generator shape')
        it = comp.iter
        if not (isinstance(it, ast.Call) and isinstance(it.func, ast.Name) and it.func.id == 'range' and len(it.args) == 2):
            raise Unsupported('generator iterable')
        lo, hi = [unwrap(self.expr(x, st)) for x in it.args]
        if not (isinstance(g.elt, ast.Subscript) and isinstance(g.elt.slice, ast.Name) and g.elt.slice.id == comp.target.id):
            raise Unsupported('generator element')
        table = self.expr(g.elt.value, st)
        if isinstance(table, tuple) and all(isinstance(x, int) for x in table):
            tables = [(True, table)]
        elif is_z3(table):
            raise Unsupported('symbolic table')
        elif isinstance(table, CondTuple):
            tables = [(table.c, table.a), (z3.Not(table.c), table.b)]
        else:
            raise Unsupported('table %r' % (table,))
        total = 0
        for c, t in tables:
            sub = 0
            for i in range(len(t)):
                sub = sub + z3.If(z3.And(lo <= i, i < hi), t[i], 0)
            total = sub if c is True else total + z3.If(c, sub, 0)
        # indices outside the table would raise IndexError in Python: record as obligation
        self.side_oob.append(z3.And(lo < hi, z3.Or(lo < 0, hi > len(tables[0][1]))))
        return total

    def stub_adjusted(self, recv):
        """contract of Decimal.adjusted() (exponent of the most significant digit): adjusted() >= k iff |x| >= 10^k, instantiated at
        k = 27 (the default precision boundary, the only threshold the code under verification compares it with)"""
        _FRESH[0] += 1
        adj = z3.Int('adjusted!%d' % _FRESH[0])
        x = unwrap(recv)
        xr = z3.ToReal(x) if is_z3(x) and x.sort() == z3.IntSort() else (z3.RealVal(x) if isinstance(x, int) else x)
        ab = z3.If(xr >= 0, xr, -xr)
        self.side.append((adj >= 27) == (ab >= z3.RealVal(10 ** 27)))
        self.notes.append('Decimal.adjusted() >= 27 iff |x| >= 10^27')
        return adj

    def stub_quantize(self, recv, exp, rounding=None, context=None):
        mode = {'ROUND_HALF_UP': 'away', 'ROUND_HALF_DOWN': 'toward', 'ROUND_HALF_EVEN': 'even'}.get(rounding)
        if mode is None:
            raise Unsupported('quantize rounding %r' % (rounding,))
        if isinstance(exp, int):
            exp = decimal.Decimal(exp)
        if not isinstance(exp, decimal.Decimal) or exp <= 0:
            raise Unsupported('quantize exponent %r' % (exp,))
        self.notes.append("Decimal.quantize(%s, %s) = nearest multiple of %s, ties %s" % (exp, rounding, exp, mode))
        x = unwrap(recv)
        if exp > 1:              # multiple of exp = 10**k, k > 0
            if exp != exp.to_integral_value():
                raise Unsupported('quantize exponent %r' % (exp,))
            m = int(exp)
            xr = z3.ToReal(x) if is_z3(x) and x.sort() == z3.IntSort() else (z3.RealVal(x) if isinstance(x, int) else x)
            r = self.round_half(xr / m, mode)
            return r * m if (isinstance(x, int) or x.sort() == z3.IntSort()) else z3.ToReal(r) * m
        scale = 1 / exp          # multiple of exp = 10**-k
        if scale != scale.to_integral_value():
            raise Unsupported('quantize exponent %r' % (exp,))
        scale = int(scale)
        if scale == 1:
            return self.round_half(x, mode)
        if isinstance(x, int) or x.sort() == z3.IntSort():
            return x
        return z3.ToReal(self.round_half(x * scale, mode)) / scale


class SymCallable:
    """a contract function living in the symbolic world (returned by sym_attr for methods)"""
    def __init__(self, fn):
        self.fn = fn


class BoundMethod:
    def __init__(self, recv, attr):
        self.recv, self.attr = recv, attr


class SliceObj:
    def __init__(self, lo, hi):
        self.lo, self.hi = lo, hi


class Poison:
    def __init__(self, name):
        self.name = name


class CondTuple:
    def __init__(self, c, a, b):
        self.c, self.a, self.b = c, a, b


def translate(pyfn, args, stubs=None, env=None, kwargs=None, procedure=False, raw_outcomes=False):
    """Translate and call; returns dict(val, raised, labels, side, nonneg, oob, notes, callee_raises)."""
    fn = Fn(pyfn, stubs=stubs, env=env)
    fn.nonneg, fn.side_oob, fn.callee_raises = [], [], []
    rets = fn(*args, **(kwargs or {}))
    try:
        val, raised, labels = fn.value(rets, allow_none=procedure)
    except Unsupported:
        if not raw_outcomes:
            raise
        val, raised, labels = None, z3.Or(*[c for c, v in rets if isinstance(v, Raised)] + [z3.BoolVal(False)]), {}
    return dict(yields=fn.yields, loop_positions=fn.loop_positions, val=val, raised=raised, labels=labels, side=fn.side, nonneg=fn.nonneg, oob=fn.side_oob, notes=fn.notes,
                callee_raises=fn.callee_raises, rets=rets, fn=fn)


def check(constraints, timeout_ms=120000):
    """One solver query; returns (result string, model or None, seconds)."""
    import time
    s = z3.Solver()
    s.set('timeout', timeout_ms)
    s.add(*constraints)
    t = time.time()
    r = str(s.check())
    return r, (s.model() if r == 'sat' else None), time.time() - t
