"""Process bootstrap shared by harness modules.

boot() makes `elementpath` importable from VERIF_REPO (default /repo), always from the current
working-tree source.  In solver mode (default) it installs the `match` desugaring import hook and the
CrossHair fixes; in plain mode (VERIF_PLAIN=1: replay, metadata listing) the package is imported
unmodified.
"""
import os
import sys
import linecache

REPO = os.environ.get('VERIF_REPO', '/repo')
PLAIN = os.environ.get('VERIF_PLAIN') == '1'
_booted = False


def boot():
    global _booted
    if _booted:
        return
    _booted = True
    sys.dont_write_bytecode = True
    if REPO not in sys.path:
        sys.path.insert(0, REPO)
    if not PLAIN:
        from . import desugar
        if 'elementpath' not in sys.modules:
            desugar.install()
        try:
            from . import ch_fixes  # noqa: F401
        except ImportError:
            pass


def pyet():
    """A pure-Python xml.etree.ElementTree (C accelerator masked) in solver mode, the real one in plain mode."""
    if PLAIN:
        import xml.etree.ElementTree as ET
        return ET
    import importlib.util
    saved = sys.modules.get('_elementtree', False)
    sys.modules['_elementtree'] = None
    try:
        spec = importlib.util.find_spec('xml.etree.ElementTree')
        mod = importlib.util.module_from_spec(spec)
        spec.loader.exec_module(mod)
    finally:
        if saved is False:
            del sys.modules['_elementtree']
        else:
            sys.modules['_elementtree'] = saved
    return mod


# ---------------------------------------------------------------------------------------------------
# obligation registry

class Ob:
    __slots__ = ('name', 'fn', 'tier', 'budget', 'bound', 'funcs', 'kind', 'finding', 'module', 'reach', 'family', 'engine', 'tbudget')

    def meta(self):
        return {k: getattr(self, k) for k in self.__slots__ if k != 'fn'}


def registry(modglobals):
    return modglobals.setdefault('OBLIGATIONS', {})


def ob(tier='quick', budget=60, bound='', funcs=(), kind='main', finding=None, reach=True, family=None,
       engine='crosshair', tbudget=None):
    """Register a condition function as an obligation.

    tier:   'quick' (run in both tiers) or 'thorough' (thorough only)
    budget: per-condition CPU budget (s) for CrossHair in the quick tier (thorough multiplies it)
    engine: 'crosshair' – fn is a PEP-316 condition executed symbolically by CrossHair (E1)
            'z3'        – fn(ctx) builds the encoding from the current source and queries z3 itself (E2/E3);
                          returns dict(status=CONFIRMED|REFUTED|UNKNOWN, queries, solver_s, counterexamples, samples)
    kind:   'main'    – must come back "Confirmed over all paths" to be discharged; a replayed
                        counterexample is a VIOLATION
            'witness' – split-out input class of a known finding (known_findings.json id in `finding`):
                        expected refuted; prints KNOWN-FINDING while it still fails
            'hunt'    – bug-hunting only (measured not exhaustible): a replayed counterexample is a
                        VIOLATION, anything else is inconclusive and never counted as discharged
    """
    def deco(fn):
        o = Ob()
        o.name = fn.__name__
        o.fn = fn
        o.tier = tier
        o.budget = budget
        o.bound = bound
        o.funcs = list(funcs)
        o.kind = kind
        o.finding = finding
        o.module = fn.__module__
        o.reach = reach
        o.family = family
        o.engine = engine
        o.tbudget = tbudget
        registry(fn.__globals__)[o.name] = o
        return fn
    return deco


_gen_count = 0


def define(src, modglobals, tag='gen'):
    """exec generated condition source so that CrossHair (which reads contracts from source) can see it."""
    global _gen_count
    _gen_count += 1
    filename = '<verif-%s-%s-%d>' % (modglobals.get('__name__', 'm'), tag, _gen_count)
    linecache.cache[filename] = (len(src), None, src.splitlines(True), filename)
    exec(compile(src, filename, 'exec'), modglobals)
