"""Replay a counterexample against the plain package: no CrossHair, no desugar hook, real ElementTree.

usage: VERIF_PLAIN=1 python -m verif_lib.replay <harness module> <call expression>
Prints `REPLAY {json}`; reproduced = the condition returns a false value or raises an Exception.
"""
import json
import sys
import importlib


def main():
    from . import env
    assert env.PLAIN, 'replay must run with VERIF_PLAIN=1'
    env.boot()
    modname, call = sys.argv[1], sys.argv[2]
    out = dict(module=modname, call=call)
    try:
        mod = importlib.import_module(modname)
        try:
            val = eval(call, dict(mod.__dict__))
            out['returned'] = repr(val)[:300]
            out['reproduced'] = not val
        except Exception as e:
            out['raised'] = '%s: %s' % (type(e).__name__, str(e)[:300])
            out['reproduced'] = True
    except BaseException as e:
        out['harness_error'] = '%s: %s' % (type(e).__name__, str(e)[:300])
        out['reproduced'] = False
    print('REPLAY ' + json.dumps(out))


if __name__ == '__main__':
    main()
