"""Import hook: load elementpath from /repo with `match` statements desugared to if/isinstance chains."""
import ast, sys, importlib.abc, importlib.machinery, importlib.util, os

class _Desugar(ast.NodeTransformer):
    def __init__(self): self.n = 0; self.count = 0
    def _test(self, subj, pat):
        # returns (test_expr, bindings[list of (name)]) ; subj is ast.Name load
        if isinstance(pat, ast.MatchClass):
            if pat.patterns or pat.kwd_patterns: raise NotImplementedError(ast.dump(pat))
            return ast.Call(ast.Name('isinstance', ast.Load()), [subj, pat.cls], []), None
        if isinstance(pat, ast.MatchValue):
            return ast.Compare(subj, [ast.Eq()], [pat.value]), None
        if isinstance(pat, ast.MatchSingleton):
            return ast.Compare(subj, [ast.Is()], [ast.Constant(pat.value)]), None
        if isinstance(pat, ast.MatchOr):
            tests = [self._test(subj, p)[0] for p in pat.patterns]
            return ast.BoolOp(ast.Or(), tests), None
        if isinstance(pat, ast.MatchAs):
            if pat.pattern is None:
                return ast.Constant(True), pat.name
            t, _ = self._test(subj, pat.pattern); return t, pat.name
        if isinstance(pat, ast.MatchSequence):
            # only fixed-length tuples of simple patterns
            n = len(pat.patterns)
            tests = [ast.Call(ast.Name('isinstance', ast.Load()), [subj, ast.Name('tuple', ast.Load())], []),
                     ast.Compare(ast.Call(ast.Name('len', ast.Load()), [subj], []), [ast.Eq()], [ast.Constant(n)])]
            for i, p in enumerate(pat.patterns):
                t, b = self._test(ast.Subscript(subj, ast.Constant(i), ast.Load()), p)
                if b is not None: raise NotImplementedError
                tests.append(t)
            return ast.BoolOp(ast.And(), tests), None
        raise NotImplementedError(ast.dump(pat))
    def visit_Match(self, node):
        self.generic_visit(node)
        self.count += 1
        self.n += 1
        tmp = f'__m{self.n}'
        out = [ast.Assign([ast.Name(tmp, ast.Store())], node.subject)]
        chain = None; tail = None
        for case in node.cases:
            subj = ast.Name(tmp, ast.Load())
            test, bind = self._test(subj, case.pattern)
            body = list(case.body)
            if bind is not None:
                # bind before guard: use walrus-free form: nested if
                assign = ast.Assign([ast.Name(bind, ast.Store())], ast.Name(tmp, ast.Load()))
                if case.guard is not None:
                    # (test) and ((bind := tmp) is bind or True) and guard  -> use NamedExpr
                    ne = ast.NamedExpr(ast.Name(bind, ast.Store()), ast.Name(tmp, ast.Load()))
                    always = ast.BoolOp(ast.Or(), [ast.Compare(ne, [ast.Is()], [ast.Constant(None)]), ast.Constant(True)])
                    test = ast.BoolOp(ast.And(), [test, always, case.guard])
                else:
                    body = [assign] + body
            elif case.guard is not None:
                test = ast.BoolOp(ast.And(), [test, case.guard])
            new_if = ast.If(test, body, [])
            if chain is None: chain = tail = new_if
            else: tail.orelse = [new_if]; tail = new_if
        out.append(chain)
        return out

def transform_source(src, filename):
    tree = ast.parse(src, filename)
    d = _Desugar(); tree = d.visit(tree); ast.fix_missing_locations(tree)
    return compile(tree, filename, 'exec'), d.count

class _Loader(importlib.machinery.SourceFileLoader):
    def source_to_code(self, data, path, *, _optimize=-1):
        code, n = transform_source(data if isinstance(data, str) else data.decode('utf-8'), path)
        return code
    def get_code(self, fullname):   # bypass .pyc cache
        path = self.get_filename(fullname)
        return self.source_to_code(self.get_data(path), path)

class _Finder(importlib.abc.MetaPathFinder):
    def find_spec(self, fullname, path, target=None):
        if fullname != 'elementpath' and not fullname.startswith('elementpath.'):
            return None
        spec = importlib.machinery.PathFinder.find_spec(fullname, path)
        if spec is None or not isinstance(spec.loader, importlib.machinery.SourceFileLoader):
            return spec
        spec.loader = _Loader(spec.loader.name, spec.loader.path)
        return spec

def install():
    assert 'elementpath' not in sys.modules
    sys.meta_path.insert(0, _Finder())
