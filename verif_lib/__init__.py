"""Solver-based checking of sissaschool/elementpath (see /verif/DESIGN.md)."""
