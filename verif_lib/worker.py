"""One OS process = one condition (plus its reachability twin) under CrossHair.

usage: python -m verif_lib.worker <harness module> <function> <cpu budget s>
Prints one line `RESULT {json}`.
"""
import json
import re
import sys
import time
import importlib

from . import env


def _twin(fn):
    """Reachability twin: same pre/body, `post: False` — must be refuted by a concrete input."""
    import inspect
    import textwrap
    src = textwrap.dedent(inspect.getsource(fn))
    # drop decorators
    lines = src.splitlines(True)
    i = 0
    while not lines[i].lstrip().startswith('def '):
        i += 1
    src = ''.join(lines[i:])
    name = fn.__name__
    src = re.sub(r'^def %s\(' % re.escape(name), 'def %s__reach(' % name, src, count=1)
    src, n = re.subn(r'^(\s*)post:.*$', r'\1post: False', src, flags=re.M)
    if n == 0:
        raise RuntimeError('no post: line in %s' % name)
    g = fn.__globals__
    env.define(src, g, tag='reach')
    return g[name + '__reach']


CALL_RE = re.compile(r'when calling (.*?)(?: \(which returns .*\))?$', re.S)


def run(modname, fname, budget):
    env.boot()
    import crosshair.core as core
    from crosshair.core_and_libs import analyze_function, run_checkables
    from crosshair.options import AnalysisOptionSet, AnalysisKind

    stats = {}
    orig = core.analyze_calltree

    def wrapped(options, conditions):
        t = time.process_time()
        res = orig(options, conditions)
        stats[conditions.fn.__name__] = dict(
            status=str(res.verification_status).split('.')[-1],
            confirmed_paths=res.num_confirmed_paths,
            messages=[(str(m.state).split('.')[-1], m.message) for m in res.messages],
            cpu=round(time.process_time() - t, 2))
        return res
    core.analyze_calltree = wrapped

    mod = importlib.import_module(modname)
    o = mod.OBLIGATIONS[fname]
    fn = o.fn
    out = dict(name=fname, module=modname)
    if o.engine == 'z3':
        import os
        t = time.process_time()
        ctx = dict(tier=os.environ.get('VERIF_TIER', 'quick'), seed=int(os.environ.get('VERIF_SEED', '0') or 0),
                   budget=budget)
        r = fn(ctx)
        out.update(status=r.get('status', 'UNKNOWN'), confirmed_paths=r.get('queries', 0), queries=r.get('queries', 0),
                   solver_s=round(r.get('solver_s', 0.0), 3), cpu=round(time.process_time() - t, 2),
                   counterexamples=r.get('counterexamples', []), messages=r.get('messages', []),
                   samples=r.get('samples', []), detail=r.get('detail'))
        if r.get('samples'):
            out['reach'] = dict(status='REFUTED', call=str(r['samples'][0])[:300])
        elif 'reach' in r:
            out['reach'] = r['reach']
        return out

    def analyse(f, secs):
        opts = AnalysisOptionSet(per_condition_timeout=secs, analysis_kind=[AnalysisKind.PEP316], report_all=True,
                                 max_uninteresting_iterations=sys.maxsize)
        checkables = analyze_function(f, opts)
        if not checkables:
            raise RuntimeError('no contract found on %s' % f.__name__)
        list(run_checkables(checkables))
        return stats.get(f.__name__)

    if o.reach:
        try:
            r = analyse(_twin(fn), min(60, max(20, budget / 2)))
        except BaseException as e:  # engine crash in the twin: reported, main still attempted
            r = dict(status='ENGINE_ERROR', messages=[('ERR', '%s: %s' % (type(e).__name__, e))])
        reach = dict(status=(r or {}).get('status'))
        for st, msg in (r or {}).get('messages', []):
            m = CALL_RE.search(msg)
            if m:
                reach['call'] = m.group(1).replace('__reach(', '(', 1)
                break
        if 'call' not in reach and reach['status'] == 'REFUTED':
            reach['status'] = 'UNREACHED'   # "Unable to meet precondition": every path aborted or the pre is vacuous
        out['reach'] = reach
    r = analyse(fn, budget)
    if r is None:
        raise RuntimeError('no analysis result for %s' % fname)
    out.update(status=r['status'], confirmed_paths=r['confirmed_paths'], cpu=r['cpu'])
    cex = []
    for st, msg in r['messages']:
        if st in ('POST_FAIL', 'POST_ERR', 'EXEC_ERR'):
            m = CALL_RE.search(msg)
            cex.append(dict(state=st, message=msg[:600], call=m.group(1) if m else None))
    out['messages'] = [(st, msg[:300]) for st, msg in r['messages']]
    if not cex and out['status'] == 'REFUTED':
        out['status'] = 'UNREACHED' if any(st == 'PRE_UNSAT' for st, _ in r['messages']) else 'UNKNOWN'
    out['counterexamples'] = cex
    return out


def main():
    modname, fname, budget = sys.argv[1], sys.argv[2], float(sys.argv[3])
    t0 = time.time()
    try:
        out = run(modname, fname, budget)
    except BaseException as e:
        import traceback
        out = dict(name=fname, module=modname, status='ENGINE_ERROR',
                   error='%s: %s' % (type(e).__name__, str(e)[:400]), tb=traceback.format_exc()[-1500:])
    out['wall'] = round(time.time() - t0, 2)
    print('RESULT ' + json.dumps(out))
    sys.stdout.flush()


if __name__ == '__main__':
    main()
