"""./check <property id> [--tier quick|thorough] [--replay file] [--only a,b] [--list]

Runs every obligation of the property's harness module against VERIF_REPO's (default /repo) current working
tree, one OS process per condition, replays counterexamples on the plain package, prints
VIOLATION / KNOWN-FINDING lines and rewrites evidence/<id>.json.
Exit codes: 0 held on everything explored; 1 violation; 3 harness error (e.g. repository not importable).
"""
import argparse
import hashlib
import importlib
import json
import os
import subprocess
import sys
import time
from concurrent.futures import ThreadPoolExecutor

HERE = os.path.dirname(os.path.dirname(os.path.abspath(__file__)))
OUT = os.environ.get('VERIF_OUT', HERE)
PY = sys.executable
THOROUGH_FACTOR = 5


def _env(plain, tier, seed):
    e = dict(os.environ)
    e['PYTHONPATH'] = HERE
    e['PYTHONDONTWRITEBYTECODE'] = '1'
    e['PYTHONHASHSEED'] = '0'
    e['VERIF_TIER'] = tier
    e['VERIF_SEED'] = str(seed)
    if plain:
        e['VERIF_PLAIN'] = '1'
    else:
        e.pop('VERIF_PLAIN', None)
    return e


def load_meta(modname, tier, seed):
    """Import the harness module in a plain subprocess and return its obligations' metadata."""
    code = ("import json, importlib; from verif_lib import env; env.boot(); m = importlib.import_module(%r); "
            "print('META ' + json.dumps({'obs': {k: o.meta() for k, o in m.OBLIGATIONS.items()}, 'info': getattr(m, 'INFO', {})}))" % modname)
    p = subprocess.run([PY, '-c', code], env=_env(True, tier, seed), cwd=HERE, capture_output=True, text=True)
    for line in p.stdout.splitlines():
        if line.startswith('META '):
            return json.loads(line[5:])
    sys.stderr.write(p.stdout[-2000:] + p.stderr[-4000:])
    return None


TOOL_ERRORS = ('CrossHairInternal', 'IgnoreAttempt', 'UnexploredPath', 'z3types.Z3Exception', 'Z3Exception')


def run_worker(modname, name, budget, tier, seed):
    r = _run_worker(modname, name, budget, tier, seed)
    if r.get('status') == 'ENGINE_ERROR' and str(r.get('error', '')).startswith(TOOL_ERRORS):
        # an internal error of the engine (seen under load: "Unexpected unsat from solver"): one more attempt
        r2 = _run_worker(modname, name, budget, tier, seed)
        r2['retried_after'] = str(r.get('error'))[:200]
        return r2
    return r


def _run_worker(modname, name, budget, tier, seed):
    wall = budget * 2.5 + 90
    t0 = time.time()
    try:
        p = subprocess.run([PY, '-m', 'verif_lib.worker', modname, name, str(budget)], env=_env(False, tier, seed),
                           cwd=HERE, capture_output=True, text=True, timeout=wall)
    except subprocess.TimeoutExpired:
        return dict(name=name, module=modname, status='TIMEOUT', wall=round(time.time() - t0, 1))
    for line in p.stdout.splitlines():
        if line.startswith('RESULT '):
            return json.loads(line[7:])
    return dict(name=name, module=modname, status='ENGINE_ERROR', wall=round(time.time() - t0, 1),
                error=(p.stderr or p.stdout)[-600:])


def run_replay(modname, call, tier='quick', seed=0):
    try:
        p = subprocess.run([PY, '-m', 'verif_lib.replay', modname, call], env=_env(True, tier, seed), cwd=HERE,
                           capture_output=True, text=True, timeout=300)
    except subprocess.TimeoutExpired:
        return dict(reproduced=False, harness_error='replay timeout')
    for line in p.stdout.splitlines():
        if line.startswith('REPLAY '):
            return json.loads(line[7:])
    return dict(reproduced=False, harness_error=(p.stderr or p.stdout)[-400:])


def known_findings():
    path = os.path.join(HERE, 'known_findings.json')
    if not os.path.exists(path):
        return {}
    with open(path) as f:
        data = json.load(f)
    return {k['id']: k for k in data.get('findings', [])}


def main(argv=None):
    ap = argparse.ArgumentParser()
    ap.add_argument('prop')
    ap.add_argument('--tier', default=os.environ.get('VERIF_TIER') or 'quick', choices=['quick', 'thorough'])
    ap.add_argument('--replay')
    ap.add_argument('--only')
    ap.add_argument('--list', action='store_true')
    ap.add_argument('--jobs', type=int, default=int(os.environ.get('VERIF_JOBS') or os.cpu_count() or 4))
    ap.add_argument('--budget-scale', type=float, default=float(os.environ.get('VERIF_BUDGET_SCALE') or 1.0))
    a = ap.parse_args(argv)
    pid = a.prop.upper()
    seed = int(os.environ.get('VERIF_SEED') or 0)
    modname = 'harness.' + pid.lower()

    if a.replay:
        with open(a.replay) as f:
            rp = json.load(f)
        r = run_replay(rp['module'], rp['call'])
        print(json.dumps(r, indent=1))
        if r.get('reproduced'):
            print('VIOLATION property=%s replay=%s' % (rp.get('property', pid), a.replay))
            return 1
        return 0 if 'harness_error' not in r else 3

    t0 = time.time()
    loaded = load_meta(modname, a.tier, seed)
    meta = loaded and loaded['obs']
    info = loaded and loaded['info']
    if meta is None:
        print('HARNESS-ERROR property=%s cannot load %s against %s' % (pid, modname, os.environ.get('VERIF_REPO', '/repo')))
        return 3
    names = [n for n, m in meta.items() if a.tier == 'thorough' or m['tier'] == 'quick']
    if a.only:
        sel = a.only.split(',')
        names = [n for n in meta if any(n == s or (s.endswith('*') and n.startswith(s[:-1])) for s in sel)]
    if a.list:
        for n in names:
            print(n, meta[n]['kind'], meta[n]['engine'], meta[n]['budget'], meta[n]['bound'])
        return 0

    def budget_of(m):
        if a.tier == 'thorough':
            b = m.get('tbudget') or m['budget'] * THOROUGH_FACTOR
            b = min(b, 3000)        # no single obligation may hold the thorough tier for more than 50 minutes
        else:
            b = m['budget']
        return b * a.budget_scale

    # longest first so that the pool drains evenly
    names.sort(key=lambda n: -budget_of(meta[n]))
    results = {}
    with ThreadPoolExecutor(max_workers=a.jobs) as ex:
        futs = {n: ex.submit(run_worker, modname, n, budget_of(meta[n]), a.tier, seed) for n in names}
        for n, f in futs.items():
            results[n] = f.result()

    known = known_findings()
    violations, known_lines, obligations = [], [], []
    os.makedirs(os.path.join(OUT, 'replays'), exist_ok=True)
    for n in sorted(names):
        m, r = meta[n], results[n]
        verdict = None
        replays = []
        for cx in r.get('counterexamples') or []:
            if not cx.get('call'):
                continue
            rr = run_replay(cx.get('module', modname), cx['call'], a.tier, seed)
            replays.append(dict(call=cx['call'], reproduced=rr.get('reproduced'), detail=rr.get('raised') or rr.get('returned')
                                or rr.get('harness_error'), message=cx.get('message', '')[:300]))
        repro = [x for x in replays if x['reproduced']]
        if repro:
            if m['kind'] == 'witness':
                verdict = 'known-finding'
                k = known.get(m['finding'])
                if k is None or k.get('status', 'open') != 'open':
                    verdict = 'violation'   # a witness without an open listed finding is an ordinary violation
                else:
                    known_lines.append('KNOWN-FINDING: property=%s %s [%s] witness %s' % (pid, k['what'], k['id'], repro[0]['call']))
            else:
                verdict = 'violation'
            if verdict == 'violation':
                h = hashlib.sha1((n + repro[0]['call']).encode()).hexdigest()[:10]
                path = os.path.join(OUT, 'replays', '%s-%s-%s.json' % (pid, n, h))
                with open(path, 'w') as f:
                    json.dump(dict(property=pid, module=modname, function=n, call=repro[0]['call'],
                                   message=repro[0]['message'], detail=repro[0]['detail'], bound=m['bound']), f, indent=1)
                violations.append(path)
        elif replays:
            verdict = 'spurious-counterexample'
        elif r.get('status') == 'CONFIRMED' and r.get('confirmed_paths', 0) >= 1 and \
                (not m['reach'] or (r.get('reach') or {}).get('status') == 'REFUTED' or m['engine'] == 'z3'):
            verdict = 'fixed?' if m['kind'] == 'witness' else 'discharged'
        elif r.get('status') == 'CONFIRMED':
            verdict = 'vacuous'
        elif r.get('status') in ('ENGINE_ERROR', 'TIMEOUT'):
            verdict = 'engine-error' if r['status'] == 'ENGINE_ERROR' else 'timeout'
        else:
            verdict = 'inconclusive'
        obligations.append(dict(name=n, kind=m['kind'], engine=m['engine'], bound=m['bound'], functions=m['funcs'],
                                verdict=verdict, status=r.get('status'), paths=r.get('confirmed_paths', 0),
                                queries=r.get('queries'), solver_s=r.get('solver_s'),
                                cpu_s=r.get('cpu'), wall_s=r.get('wall'), budget_s=budget_of(m),
                                reach=r.get('reach'), replays=replays or None, finding=m.get('finding'),
                                error=r.get('error'), detail=r.get('detail'),
                                messages=None if verdict == 'discharged' else r.get('messages')))

    for line in known_lines:
        print(line)
    for o in obligations:
        if o['verdict'] == 'fixed?':
            print('NOTE property=%s witness %s of finding %s no longer fails (fixed?)' % (pid, o['name'], o['finding']))
    for o in obligations:
        if o['verdict'] == 'spurious-counterexample':
            print('SPURIOUS property=%s %s: solver counterexample did not reproduce on the plain package: %s' % (
                pid, o['name'], (o['replays'] or [{}])[0].get('call')))
    for path in violations:
        print('VIOLATION property=%s replay=%s' % (pid, path))

    write_evidence(pid, a.tier, seed, obligations, violations, time.time() - t0, info)
    summary = {}
    for o in obligations:
        summary[o['verdict']] = summary.get(o['verdict'], 0) + 1
    print('%s tier=%s obligations=%d %s wall=%.0fs' % (pid, a.tier, len(obligations),
                                                       ' '.join('%s=%d' % kv for kv in sorted(summary.items())), time.time() - t0))
    if os.environ.get('VERIF_VERBOSE'):
        for o in obligations:
            print('  %-40s %-12s %-10s paths=%-5s cpu=%s %s' % (o['name'], o['verdict'], o['status'], o['paths'], o['cpu_s'],
                                                               (o.get('error') or '')[:200]))
    broken = []
    for o in obligations:
        if o['verdict'] != 'engine-error':
            continue
        if str(o.get('error') or '').startswith(TOOL_ERRORS):
            # internal error of CrossHair / z3 on this obligation, twice in a row: inconclusive, reported, not a pass and not a harness defect
            print('TOOL-ERROR property=%s obligation=%s engine gave up: %s' % (pid, o['name'], (o.get('error') or '')[:200]))
        else:
            # an obligation that could not be run is a defect of the machinery, never a silent pass
            broken.append(o)
            print('HARNESS-ERROR property=%s obligation=%s could not run: %s' % (pid, o['name'], (o.get('error') or '')[:300]))
    if violations:
        return 1
    return 3 if broken else 0


def write_evidence(pid, tier, seed, obligations, violations, wall, info):
    main_obs = [o for o in obligations if o['kind'] == 'main']
    discharged = [o for o in obligations if o['verdict'] == 'discharged']
    samples = []
    for o in obligations:
        call = (o.get('reach') or {}).get('call')
        if call:
            samples.append(dict(obligation=o['name'], input=call, verdict=o['verdict']))
    samples = samples[:40]
    funcs = sorted({f for o in obligations for f in o['functions']})
    paths = sum(o['paths'] or 0 for o in obligations)
    nontrivial = len([o for o in discharged if (o['paths'] or 0) >= 2])
    cov = dict(
        explanation=info.get('explanation', '') + (
            ' This run: %d obligations (%d claimed "main", %d bug-hunting, %d known-finding witnesses); %d discharged by the '
            'solver over all paths within their stated bound, %d inconclusive (never counted as passed), %d violations.'
            % (len(obligations), len(main_obs), len([o for o in obligations if o['kind'] == 'hunt']),
               len([o for o in obligations if o['kind'] == 'witness']), len(discharged),
               len([o for o in obligations if o['verdict'] in ('inconclusive', 'timeout', 'engine-error', 'vacuous',
                                                              'spurious-counterexample')]), len(violations))),
        obligations=len(obligations),
        discharged=len(discharged),
        main_obligations=len(main_obs),
        main_discharged=len([o for o in main_obs if o['verdict'] == 'discharged']),
        inconclusive=[o['name'] for o in obligations if o['verdict'] in ('inconclusive', 'timeout', 'engine-error', 'vacuous')],
        spurious=[o['name'] for o in obligations if o['verdict'] == 'spurious-counterexample'],
        known_findings=[o['finding'] for o in obligations if o['verdict'] == 'known-finding'],
        evaluations=max(paths, 1),
        distinct_nontrivial=nontrivial,
        rule='evaluations = execution paths (E1) / solver queries (E2, E3) decided by the SMT solver in this run, summed over '
             'obligations; an obligation counts as distinct and non-trivial when it was discharged ("Confirmed over all paths" '
             'or unsat) with at least two solver-decided paths/queries and its reachability twin produced a concrete input',
        samples=samples or [dict(note='no reachability samples in this run')],
        functions_encoded=funcs,
        solver_cpu_s=round(sum(o['cpu_s'] or 0 for o in obligations), 1),
        checker_cmd='./check %s --tier %s' % (pid, tier),
        trusted_base=['crosshair-tool 0.0.110', 'z3-solver 4.x/5.x', 'CPython 3.12 bytecode semantics as modelled by CrossHair',
                      'match-desugaring import hook (validated by the test-suite)'],
        exhaustive=False,
        per_obligation=obligations,
    )
    progs = sum((o.get('detail') or {}).get('programs', 0) for o in obligations if isinstance(o.get('detail'), dict))
    if progs:
        cov['programs'] = progs
        cov['disagreements_checked'] = sum(len(o.get('replays') or []) for o in obligations)
    ev = dict(property_id=pid, tier=tier, seed=seed, level=info.get('level', 'other'), coverage=cov,
              assumptions=info.get('assumptions', []), wall_s=round(wall, 1), violations=len(violations))
    os.makedirs(os.path.join(OUT, 'evidence'), exist_ok=True)
    with open(os.path.join(OUT, 'evidence', pid + '.json'), 'w') as f:
        json.dump(ev, f, indent=1, default=str)


if __name__ == '__main__':
    sys.exit(main())
