import re
import crosshair.libimpl.relib as relib
def unicode_ignorecase_mask(cp):
    mask = relib._UNICODE_IGNORECASE_MASKS.get(cp)
    if mask is None:
        chars = relib.caseable_chars()
        matches = re.compile(re.escape(chr(cp)), re.IGNORECASE).findall(chars)
        mask = relib.CharMask([ord(c) for c in matches])
        relib._UNICODE_IGNORECASE_MASKS[cp] = mask
    return mask
relib.unicode_ignorecase_mask = unicode_ignorecase_mask
