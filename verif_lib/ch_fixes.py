import re
import crosshair.libimpl.relib as relib
def unicode_ignorecase_mask(cp):
    mask = relib._UNICODE_IGNORECASE_MASKS.get(cp)
    if mask is None:
        chars = relib.caseable_chars()
        matches = re.compile(re.escape(chr(cp)), re.IGNORECASE).findall(chars)
        mask = relib.CharMask([ord(c) for c in matches])
        relib._UNICODE_IGNORECASE_MASKS[cp] = mask
    return mask
relib.unicode_ignorecase_mask = unicode_ignorecase_mask


# tool bug (crosshair 0.0.110 libimpl/mathlib._copysign): `-x if invert else x` on a CONCRETE integer zero returns the int 0, so
# math.copysign(0, -0.5) is 0 instead of -0.0 under the tracer (a false alarm on code that uses the idiom).  Concrete arguments go to the
# real function; symbolic ones keep the model.
import math as _math
import crosshair.core_and_libs  # noqa: F401,E402  (makes the registrations)
from crosshair import core as _core  # noqa: E402
from crosshair.tracers import NoTracing as _NoTracing  # noqa: E402
_copysign_model = _core._PATCH_REGISTRATIONS.get(_math.copysign)


def _copysign_fixed(x, y):
    with _NoTracing():
        if isinstance(x, (int, float)) and isinstance(y, (int, float)):
            return _math.copysign(x, y)
    return _copysign_model(x, y)


if _copysign_model is not None:
    _core._PATCH_REGISTRATIONS[_math.copysign] = _copysign_fixed


def patch_elementpath():
    """C-level constructors do not accept CrossHair's symbolic proxies: `int.__new__(Integer, <symbolic str>)` raises a TypeError
    that elementpath maps to FORG0001, so every string would look "not castable" (a false PASS hazard, found by a debugging
    probe).  In solver mode the int/float subclasses of elementpath realise their argument first; realisation only narrows the
    explored inputs (the condition is then not exhausted), it never changes an answer."""
    from crosshair import realize
    from elementpath.datatypes import numeric

    def integer_new(cls, value=0, *args):
        return int.__new__(cls, realize(value), *args)
    numeric.Integer.__new__ = staticmethod(integer_new)

    orig_float_new = numeric.Float.__new__

    def float_new(cls, value, xsd_version=None):
        return orig_float_new(cls, realize(value), xsd_version)
    numeric.Float.__new__ = staticmethod(float_new)

