import re
import crosshair.libimpl.relib as relib
def unicode_ignorecase_mask(cp):
    mask = relib._UNICODE_IGNORECASE_MASKS.get(cp)
    if mask is None:
        chars = relib.caseable_chars()
        matches = re.compile(re.escape(chr(cp)), re.IGNORECASE).findall(chars)
        mask = relib.CharMask([ord(c) for c in matches])
        relib._UNICODE_IGNORECASE_MASKS[cp] = mask
    return mask
relib.unicode_ignorecase_mask = unicode_ignorecase_mask


def patch_elementpath():
    """C-level constructors do not accept CrossHair's symbolic proxies: `int.__new__(Integer, <symbolic str>)` raises a TypeError
    that elementpath maps to FORG0001, so every string would look "not castable" (a false PASS hazard, found by a debugging
    probe).  In solver mode the int/float subclasses of elementpath realise their argument first; realisation only narrows the
    explored inputs (the condition is then not exhausted), it never changes an answer."""
    from crosshair import realize
    from elementpath.datatypes import numeric

    def integer_new(cls, value=0, *args):
        return int.__new__(cls, realize(value), *args)
    numeric.Integer.__new__ = staticmethod(integer_new)

    orig_float_new = numeric.Float.__new__

    def float_new(cls, value, xsd_version=None):
        return orig_float_new(cls, realize(value), xsd_version)
    numeric.Float.__new__ = staticmethod(float_new)

