#!/bin/bash
# Build /verif/.venv offline: overlay on /venv (repo deps) + crosshair-tool + z3-solver from the wheelhouse.
set -e
cd "$(dirname "$0")"
if [ -x .venv/bin/python ] && .venv/bin/python -c "import crosshair, z3, lxml" 2>/dev/null; then
  exit 0
fi
rm -rf .venv
/venv/bin/python -m venv .venv
SP=$(.venv/bin/python -c "import sysconfig; print(sysconfig.get_paths()['purelib'])")
printf '%s\n' "/venv/lib/python3.12/site-packages" > "$SP/verif_overlay.pth"
PIP_NO_INDEX=1 .venv/bin/pip install -q --no-index --find-links /opt/veriftools/wheels crosshair-tool z3-solver >/dev/null
.venv/bin/python -c "import crosshair, z3; print('verif venv ready: z3', z3.get_version_string())"
