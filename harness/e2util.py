"""Helpers for z3-engine obligations (E2/E3): query bookkeeping, two-solver diff, result records."""
import os
import shutil
import subprocess
import tempfile
import time
import z3


class Queries:
    def __init__(self, timeout_s=60, diff_binary=True):
        self.n = 0
        self.solver_s = 0.0
        self.log = []
        self.timeout_s = timeout_s
        self.diff_binary = diff_binary and shutil.which('z3') is not None
        self.unknown = 0
        self.sat = []          # (name, model)
        self.samples = []
        self.binary_timeout_s = 10

    def check(self, name, constraints, expect='unsat'):
        """Returns 'unsat' | 'sat' | 'unknown'.  With diff_binary the exported SMT-LIB is also given to /usr/bin/z3 (4.8.12):
        an `(error` line, or a definite answer that disagrees, makes the query inconclusive."""
        s = z3.Solver()
        s.set('timeout', int(self.timeout_s * 1000))
        s.add(*constraints)
        t = time.time()
        r = str(s.check())
        dt = time.time() - t
        model = s.model() if r == 'sat' else None
        second = None
        if self.diff_binary and r in ('sat', 'unsat'):
            second = self._binary(s)
            if second in ('sat', 'unsat') and second != r:
                r = 'unknown'
            elif second == 'error':
                r = 'unknown'
        self.n += 1
        self.solver_s += dt
        self.log.append(dict(query=name, result=r, second_solver=second, s=round(dt, 3)))
        if r == 'unknown':
            self.unknown += 1
        if r == 'sat' and expect == 'unsat':
            self.sat.append((name, model))
        return r, model

    def _binary(self, solver):
        d = tempfile.mkdtemp(prefix='verif-smt-', dir=os.environ.get('VERIF_SCRATCH') or None)
        try:
            path = os.path.join(d, 'q.smt2')
            with open(path, 'w') as f:
                f.write(solver.to_smt2())
            try:
                p = subprocess.run(['z3', '-T:%d' % self.binary_timeout_s, path], capture_output=True, text=True,
                                   timeout=self.binary_timeout_s + 10)
            except subprocess.TimeoutExpired:
                return 'timeout'
            out = p.stdout.strip().splitlines()
            if any('(error' in line for line in out):
                return 'error'
            return out[0] if out and out[0] in ('sat', 'unsat', 'unknown') else 'timeout'
        finally:
            shutil.rmtree(d, ignore_errors=True)

    def check_many(self, items, seeds=3, timeout_s=None, jobs=None):
        """Portfolio: every (name, constraints, value_terms) query is exported to SMT-LIB and given to `seeds` z3 processes with
        different random seeds, all queries in parallel; the first definite answer of a query wins (z3's run time on these
        non-linear-looking div/mod problems is heavy-tailed: the same query takes 2 s or 300 s depending on the seed).
        Returns {name: (result, {term_str: value})}."""
        import concurrent.futures as cf
        import re
        import threading
        timeout_s = timeout_s or self.timeout_s
        import sys
        exe = os.path.join(sys.prefix, 'bin', 'z3')
        if not os.path.exists(exe):
            exe = shutil.which('z3-new') or shutil.which('z3')
        d = tempfile.mkdtemp(prefix='verif-smt-', dir=os.environ.get('VERIF_SCRATCH') or None)
        out = {}
        lock = threading.Lock()
        procs = {}
        t0 = time.time()

        def run(name, path, seed):
            with lock:
                if name in out:
                    return
            p = subprocess.Popen([exe, '-T:%d' % int(timeout_s), 'smt.random_seed=%d' % seed, 'sat.random_seed=%d' % seed, path],
                                 stdout=subprocess.PIPE, stderr=subprocess.STDOUT, text=True)
            with lock:
                procs.setdefault(name, []).append(p)
            try:
                text, _ = p.communicate(timeout=timeout_s + 15)
            except subprocess.TimeoutExpired:
                p.kill()
                return
            lines = text.strip().splitlines()
            if not lines or any('(error' in ln for ln in lines[:1]):
                return
            if lines[0] in ('sat', 'unsat'):
                with lock:
                    if name not in out:
                        out[name] = (lines[0], ' '.join(lines[1:]), seed, time.time() - t0)
                        for other in procs.get(name, []):
                            if other is not p and other.poll() is None:
                                other.kill()
        try:
            jobs_list = []
            for name, constraints, terms in items:
                s = z3.Solver()
                s.add(*constraints)
                text = s.to_smt2()
                if terms:
                    text += '\n(get-value (%s))\n' % ' '.join(t.sexpr() for t in terms)
                path = os.path.join(d, '%d.smt2' % len(jobs_list))
                with open(path, 'w') as f:
                    f.write(text)
                for seed in range(seeds):
                    jobs_list.append((name, path, seed))
            # interleave seeds so that every query gets its first seed early
            jobs_list.sort(key=lambda j: j[2])
            with cf.ThreadPoolExecutor(max_workers=jobs or os.cpu_count() or 4) as ex:
                list(ex.map(lambda j: run(*j), jobs_list))
        finally:
            shutil.rmtree(d, ignore_errors=True)
        results = {}
        for name, constraints, terms in items:
            r = out.get(name)
            res = r[0] if r else 'unknown'
            values = {}
            if r and res == 'sat':
                for mm in re.finditer(r'\(([^\s()]+) (\(- \d+\)|-?\d+)\)', r[1]):
                    values[mm.group(1)] = int(mm.group(2).replace('(- ', '-').replace(')', ''))
            self.n += 1
            self.solver_s += r[3] if r else timeout_s
            self.log.append(dict(query=name, result=res, seed=r[2] if r else None, s=round(r[3], 2) if r else None,
                                 portfolio=seeds, raw=(r[1][:200] if r and res == 'sat' else None)))
            if res == 'unknown':
                self.unknown += 1
            elif res == 'sat':
                self.sat.append((name, values))
            results[name] = (res, values)
        return results

    def result(self, counterexamples=(), detail=None, not_encodable=None):
        if not_encodable:
            return dict(status='UNKNOWN', queries=self.n, solver_s=self.solver_s, samples=self.samples,
                        detail=dict(not_encodable=not_encodable, queries=self.log))
        if counterexamples:
            status = 'REFUTED'
        elif self.unknown or self.sat:
            status = 'UNKNOWN'
        else:
            status = 'CONFIRMED'
        d = dict(queries=self.log)
        if detail:
            d.update(detail)
        return dict(status=status, queries=self.n, solver_s=self.solver_s, counterexamples=list(counterexamples),
                    samples=self.samples, detail=d)


def mval(model, term):
    v = model.eval(term, model_completion=True)
    if z3.is_int_value(v) or z3.is_bv_value(v):
        return v.as_long()
    if z3.is_rational_value(v):
        from fractions import Fraction
        return Fraction(v.numerator_as_long(), v.denominator_as_long())
    if z3.is_true(v):
        return True
    if z3.is_false(v):
        return False
    return str(v)
