"""Helpers for z3-engine obligations (E2/E3): query bookkeeping, two-solver diff, result records."""
import os
import shutil
import subprocess
import tempfile
import time
import z3


class Queries:
    def __init__(self, timeout_s=60, diff_binary=True):
        self.n = 0
        self.solver_s = 0.0
        self.log = []
        self.timeout_s = timeout_s
        self.diff_binary = diff_binary and shutil.which('z3') is not None
        self.unknown = 0
        self.sat = []          # (name, model)
        self.samples = []
        self.binary_timeout_s = 10

    def check(self, name, constraints, expect='unsat'):
        """Returns 'unsat' | 'sat' | 'unknown'.  With diff_binary the exported SMT-LIB is also given to /usr/bin/z3 (4.8.12):
        an `(error` line, or a definite answer that disagrees, makes the query inconclusive."""
        s = z3.Solver()
        s.set('timeout', int(self.timeout_s * 1000))
        s.add(*constraints)
        t = time.time()
        r = str(s.check())
        dt = time.time() - t
        model = s.model() if r == 'sat' else None
        second = None
        if self.diff_binary and r in ('sat', 'unsat'):
            second = self._binary(s)
            if second in ('sat', 'unsat') and second != r:
                r = 'unknown'
            elif second == 'error':
                r = 'unknown'
        self.n += 1
        self.solver_s += dt
        self.log.append(dict(query=name, result=r, second_solver=second, s=round(dt, 3)))
        if r == 'unknown':
            self.unknown += 1
        if r == 'sat' and expect == 'unsat':
            self.sat.append((name, model))
        return r, model

    def _binary(self, solver):
        d = tempfile.mkdtemp(prefix='verif-smt-', dir=os.environ.get('VERIF_SCRATCH') or None)
        try:
            path = os.path.join(d, 'q.smt2')
            with open(path, 'w') as f:
                f.write(solver.to_smt2())
            try:
                p = subprocess.run(['z3', '-T:%d' % self.binary_timeout_s, path], capture_output=True, text=True,
                                   timeout=self.binary_timeout_s + 10)
            except subprocess.TimeoutExpired:
                return 'timeout'
            out = p.stdout.strip().splitlines()
            if any('(error' in line for line in out):
                return 'error'
            return out[0] if out and out[0] in ('sat', 'unsat', 'unknown') else 'timeout'
        finally:
            shutil.rmtree(d, ignore_errors=True)

    def result(self, counterexamples=(), detail=None, not_encodable=None):
        if not_encodable:
            return dict(status='UNKNOWN', queries=self.n, solver_s=self.solver_s, samples=self.samples,
                        detail=dict(not_encodable=not_encodable, queries=self.log))
        if counterexamples:
            status = 'REFUTED'
        elif self.unknown or self.sat:
            status = 'UNKNOWN'
        else:
            status = 'CONFIRMED'
        d = dict(queries=self.log)
        if detail:
            d.update(detail)
        return dict(status=status, queries=self.n, solver_s=self.solver_s, counterexamples=list(counterexamples),
                    samples=self.samples, detail=d)


def mval(model, term):
    v = model.eval(term, model_completion=True)
    if z3.is_int_value(v):
        return v.as_long()
    if z3.is_rational_value(v):
        from fractions import Fraction
        return Fraction(v.numerator_as_long(), v.denominator_as_long())
    if z3.is_true(v):
        return True
    if z3.is_false(v):
        return False
    return str(v)
