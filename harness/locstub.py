"""Stub of the `locale` module for elementpath.collations (installed locales decided by the solver) and a two-evaluation history runner.
Shared by C19 (process-global state) and C03 (only ElementPathError escapes, no call hangs)."""
import locale
import os
from harness.common import L, P31, XPathContext, ElementPathError, err_code
import elementpath.collations as coll

EXPRS = {'compare': 'compare($a, $b, $c)', 'contains': 'contains($a, $b, $c)', 'index-of': 'index-of(($a, $b), $b, $c)',
         'distinct': 'distinct-values(($a, $b), $c)', 'sort': 'sort(($b, $a), $c)', 'deep-equal': 'deep-equal($a, $b, $c)',
         'starts': 'starts-with($a, $b, $c)', 'max': 'max(($a, $b), $c)'}
TOK = {k: P31.parse(v) for k, v in EXPRS.items()}


class FakeLocale:
    """stand-in for the `locale` module inside elementpath.collations: which locales are installed is decided by the solver"""
    LC_COLLATE = locale.LC_COLLATE
    LC_ALL = locale.LC_ALL
    Error = locale.Error

    def __init__(self, de, en_us, it, other, initial=(None, None)):
        self.ok = dict(de=de, en_US=en_us, it_IT=it)
        self.other = other
        if initial[0] in self.ok:
            self.ok[initial[0]] = True        # the locale the process is already in is necessarily installed
        self.initial = initial
        self.cur = initial
        self.calls = 0

    def _supported(self, value):
        if value in ((None, None), 'C', 'POSIX', '', ('C', None)):
            return True
        name = value if isinstance(value, str) else value[0]
        if not isinstance(name, str):
            raise TypeError('locale name')
        if name == self.initial[0]:
            return True                       # the locale the process is already in is necessarily installed
        for k, v in self.ok.items():
            if name.startswith(k):
                return v
        return self.other

    def getlocale(self, cat=locale.LC_CTYPE):
        # the default category of locale.getlocale() is LC_CTYPE, whose locale differs from LC_COLLATE in this world
        return self.cur if cat == locale.LC_COLLATE else ('xx_CTYPE', 'UTF-8')

    def setlocale(self, cat, value=None):
        if value is None:
            return self.cur
        self.calls += 1
        if chr(0) in (value if isinstance(value, str) else ''.join(x for x in value if isinstance(x, str))):
            raise ValueError('embedded null character')      # what the C implementation does
        if isinstance(value, tuple) and len(value) != 2:
            raise TypeError('Locale must be None, a string, or an iterable of two strings -- language code, encoding.')
        if not self._supported(value):
            raise locale.Error('unsupported locale setting')
        if value in ((None, None), 'C'):
            self.cur = (None, None)
        elif isinstance(value, tuple):
            self.cur = value
        elif '.' in value:
            self.cur = tuple(value.split('.', 1))      # getlocale() reports (language, encoding)
        else:
            self.cur = (value, 'UTF-8')
        return value

    def strcoll(self, a, b):
        return (a > b) - (a < b)

    def strxfrm(self, a):
        return a


def _history(key1, uri1, key2, uri2, de, en_us, it, other, initial=(None, None)):
    fake = FakeLocale(de, en_us, it, other, initial)
    saved = coll.locale
    coll.locale = fake
    env_before = dict(os.environ)
    try:
        outs = []
        for key, uri in ((key1, uri1), (key2, uri2)):
            try:
                outs.append(L(TOK[key].evaluate(XPathContext(item=1, variables={'a': 'x', 'b': 'y', 'c': uri}))))
            except ElementPathError as e:
                outs.append(err_code(e))
            if coll._locale_collate_lock.locked() or fake.cur != initial:
                return False
        # the second evaluation alone, on a fresh stub with the same configuration, gives the same answer
        fake2 = FakeLocale(de, en_us, it, other, initial)
        coll.locale = fake2
        try:
            alone = L(TOK[key2].evaluate(XPathContext(item=1, variables={'a': 'x', 'b': 'y', 'c': uri2})))
        except ElementPathError as e:
            alone = err_code(e)
        return alone == outs[1] and dict(os.environ) == env_before
    finally:
        coll.locale = saved
        if coll._locale_collate_lock.locked():
            coll._locale_collate_lock.release()
