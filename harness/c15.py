"""C15 — maps and arrays are immutable values obeying the XPath 3.1 map/array laws (DESIGN §4 C15)."""
from harness.common import ob, define, parse_all, ev, ElementPathError, err_code, XPathContext
from elementpath.xpath_tokens import XPathArray, XPathMap

F31 = 'elementpath/xpath31/_xpath31_functions.py'
INFO = dict(
    level='other',
    explanation='Bounded symbolic execution (CrossHair + z3) of the array:* and map:* functions and the ? lookup operator through '
                'token.evaluate: array members, map values and all index/length arguments are solver variables (unbounded integers), '
                'compared with the Python list/dict model, including FOAY0001/FOAY0002 exactly outside the bounds and the operand '
                'being observably unchanged after every call (the operand is bound to a variable and re-read).',
    assumptions=['arrays of exactly 3 symbolic members (plus the empty array), maps of <= 2 entries',
                 'map KEYS are restricted to integers in [-3, 3] and two fixed strings (hashing a symbolic key realises it); values '
                 'unbounded', 'nested maps/arrays, node and function members are outside'])
T = parse_all({
    'aget': 'array:get([$x0,$x1,$x2], $i)', 'alookup': '[$x0,$x1,$x2]($i)', 'aqm': '[$x0,$x1,$x2]?*',
    'asub': 'array:subarray([$x0,$x1,$x2], $i, $n)', 'asub2': 'array:subarray([$x0,$x1,$x2], $i)',
    'arem': 'array:remove([$x0,$x1,$x2], $i)', 'arem2': 'array:remove([$x0,$x1,$x2], ($i, $j))',
    'ains': 'array:insert-before([$x0,$x1,$x2], $i, $v)', 'aput': 'array:put([$x0,$x1,$x2], $i, $v)',
    'aapp': 'array:append([$x0,$x1,$x2], $v)', 'arev': 'array:reverse([$x0,$x1,$x2])', 'ajoin': 'array:join(([$x0,$x1], [$x2], []))',
    'aflat': 'array:flatten(([$x0,[$x1]],$x2))', 'aht': '(array:head([$x0,$x1,$x2]), array:tail([$x0,$x1,$x2])?*)',
    'asize': '(array:size([$x0,$x1,$x2]), array:size([]))',
    'aimm': 'let $a := [$x0,$x1,$x2] return (array:append($a, $v)?*, -1, array:put($a, 1, $v)?*, -1, '
            'array:insert-before($a, 2, $v)?*, -1, array:remove($a, 1)?*, -1, array:reverse($a)?*, -1, $a?*)',
    'mputget': 'map:get(map:put(map{$k1: $v1, $k2: $v2}, $k, $v), $q)',
    'msize': '(map:size(map:put(map{$k1: $v1}, $k, $v)), map:size(map{}), map:size(map:remove(map{$k1: $v1}, $k)))',
    'mcontains': '(map:contains(map{$k1: $v1}, $q), map:contains(map:remove(map{$k1: $v1, 5: 0}, $k1), $q))',
    'mimm': 'let $m := map{$k1: $v1} return (map:put($m, $k, $v)?*, -1, map:remove($m, $k)?*, -1, $m?*, map:size($m))',
    'mlookup': 'map{$k1: $v1, "a": $v2}?($q)', 'mkeys': 'map:keys(map{$k1: $v1})',
    'mmerge': 'map:merge((map{$k1: $v1}, map{$k2: $v2}), map{"duplicates": $p})?($q)',
    'mentry': 'map:get(map:entry($k1, $v1), $q)',
})


def _arr_call(key, **v):
    r = T[key].evaluate(XPathContext(item=1, variables=v))
    return r


def _members(r):
    return r.items() if isinstance(r, XPathArray) else r


@ob(budget=120, bound='3 unbounded integer members; index i: any integer', funcs=[F31 + ':array:get', 'elementpath/xpath_tokens/arrays.py'])
def array_get(x0: int, x1: int, x2: int, i: int) -> bool:
    """
    post: _
    """
    xs = [x0, x1, x2]
    for key in ('aget', 'alookup'):
        try:
            r = ev(T[key], x0=x0, x1=x1, x2=x2, i=i)
        except ElementPathError as e:
            if 1 <= i <= 3 or err_code(e) != 'FOAY0001':
                return False
            continue
        if not (1 <= i <= 3 and r == [xs[i - 1]]):
            return False
    return ev(T['aqm'], x0=x0, x1=x1, x2=x2) == xs


@ob(budget=150, bound='3 unbounded integer members; start i, length n: any integers', funcs=[F31 + ':array:subarray'])
def array_subarray(x0: int, x1: int, x2: int, i: int, n: int) -> bool:
    """
    post: _
    """
    xs = [x0, x1, x2]
    try:
        r = _arr_call('asub', x0=x0, x1=x1, x2=x2, i=i, n=n)
    except ElementPathError as e:
        code = err_code(e)
        if n < 0 and 1 <= i <= 4:
            return code == 'FOAY0002'
        return (not (1 <= i <= 4) or i + n > 4) and code in ('FOAY0001', 'FOAY0002')
    if not (1 <= i <= 4 and n >= 0 and i + n <= 4 and _members(r) == xs[i - 1:i - 1 + n]):
        return False
    try:
        r2 = _arr_call('asub2', x0=x0, x1=x1, x2=x2, i=i)
    except ElementPathError as e:
        return err_code(e) == 'FOAY0001'
    return _members(r2) == xs[i - 1:]


@ob(budget=150, bound='3 unbounded integer members; positions i, j: any integers', funcs=[F31 + ':array:remove'])
def array_remove(x0: int, x1: int, x2: int, i: int, j: int) -> bool:
    """
    post: _
    """
    xs = [x0, x1, x2]
    try:
        r = _arr_call('arem', x0=x0, x1=x1, x2=x2, i=i)
        ok1 = 1 <= i <= 3 and _members(r) == [v for p, v in enumerate(xs, 1) if p != i]
    except ElementPathError as e:
        ok1 = not (1 <= i <= 3) and err_code(e) == 'FOAY0001'
    if not ok1:
        return False
    try:
        r = _arr_call('arem2', x0=x0, x1=x1, x2=x2, i=i, j=j)
    except ElementPathError as e:
        return not (1 <= i <= 3 and 1 <= j <= 3) and err_code(e) == 'FOAY0001'
    return 1 <= i <= 3 and 1 <= j <= 3 and _members(r) == [v for p, v in enumerate(xs, 1) if p not in (i, j)]


@ob(budget=200, bound='3 unbounded integer members; position i in [-2, 6]; new member v', funcs=[F31 + ':array:insert-before', F31 + ':array:put', F31 + ':array:append'])
def array_insert_put_append(x0: int, x1: int, x2: int, i: int, v: int) -> bool:
    """
    pre: -2 <= i <= 6
    post: _
    """
    xs = [x0, x1, x2]
    try:
        r = _arr_call('ains', x0=x0, x1=x1, x2=x2, i=i, v=v)
        ok = 1 <= i <= 4 and _members(r) == xs[:i - 1] + [v] + xs[i - 1:]
    except ElementPathError as e:
        ok = not (1 <= i <= 4) and err_code(e) == 'FOAY0001'
    if not ok:
        return False
    try:
        r = _arr_call('aput', x0=x0, x1=x1, x2=x2, i=i, v=v)
        ok = 1 <= i <= 3 and _members(r) == xs[:i - 1] + [v] + xs[i:]
    except ElementPathError as e:
        ok = not (1 <= i <= 3) and err_code(e) == 'FOAY0001'
    return ok and _members(_arr_call('aapp', x0=x0, x1=x1, x2=x2, v=v)) == xs + [v]


@ob(budget=120, bound='3 unbounded integer members', funcs=[F31 + ':array:reverse/join/flatten/head/tail/size'])
def array_list_functions(x0: int, x1: int, x2: int) -> bool:
    """
    post: _
    """
    xs = [x0, x1, x2]
    kw = dict(x0=x0, x1=x1, x2=x2)
    return _members(_arr_call('arev', **kw)) == xs[::-1] and _members(_arr_call('ajoin', **kw)) == xs \
        and ev(T['aflat'], **kw) == xs and ev(T['aht'], **kw) == xs and ev(T['asize'], **kw) == [3, 0]


@ob(budget=120, bound='3 unbounded integer members, new member v: the operand array bound to a variable is unchanged after append/put/insert-before/remove/reverse',
    funcs=[F31 + ':array:*', 'elementpath/xpath_tokens/arrays.py:XPathArray'])
def array_operand_unchanged(x0: int, x1: int, x2: int, v: int) -> bool:
    """
    post: _
    """
    xs = [x0, x1, x2]
    want = xs + [v] + [-1] + [v, x1, x2] + [-1] + [x0, v, x1, x2] + [-1] + [x1, x2] + [-1] + xs[::-1] + [-1] + xs
    return ev(T['aimm'], x0=x0, x1=x1, x2=x2, v=v) == want


KEYPRE = '-3 <= k1 <= 3 and -3 <= k2 <= 3 and -3 <= k <= 3 and -3 <= q <= 3'


@ob(budget=200, bound='keys k1 != k2 in [0,2], k, q in [0,3]; values: unbounded integers', funcs=[F31 + ':map:put', F31 + ':map:get', 'elementpath/xpath_tokens/maps.py'])
def map_put_get(k1: int, v1: int, k2: int, v2: int, k: int, v: int, q: int) -> bool:
    """
    pre: k1 != k2 and 0 <= k1 <= 2 and 0 <= k2 <= 2 and 0 <= k <= 3 and 0 <= q <= 3
    post: _
    """
    m = {k1: v1, k2: v2}
    m[k] = v
    return ev(T['mputget'], k1=k1, v1=v1, k2=k2, v2=v2, k=k, v=v, q=q) == ([m[q]] if q in m else [])


@ob(budget=200, bound='keys k1, k, q: integers in [-3,3]; values unbounded', funcs=[F31 + ':map:size', F31 + ':map:remove', F31 + ':map:contains', F31 + ':map:keys', F31 + ':map:entry'])
def map_size_contains_remove(k1: int, v1: int, k: int, v: int, q: int) -> bool:
    """
    pre: -3 <= k1 <= 3 and -3 <= k <= 3 and -3 <= q <= 3 and k1 != 5
    post: _
    """
    return ev(T['msize'], k1=k1, v1=v1, k=k, v=v) == [1 if k == k1 else 2, 0, 0 if k == k1 else 1] \
        and ev(T['mcontains'], k1=k1, v1=v1, q=q) == [q == k1, q == 5] and ev(T['mkeys'], k1=k1, v1=v1) == [k1] \
        and ev(T['mentry'], k1=k1, v1=v1, q=q) == ([v1] if q == k1 else [])


@ob(budget=200, bound='keys k1, k: integers in [-3,3]; values unbounded: operand map unchanged after put/remove', funcs=[F31 + ':map:put', F31 + ':map:remove'])
def map_operand_unchanged(k1: int, v1: int, k: int, v: int) -> bool:
    """
    pre: 0 <= k1 <= 2 and 0 <= k <= 2
    post: _
    """
    r = ev(T['mimm'], k1=k1, v1=v1, k=k, v=v)
    i = r.index(-1) if -1 in r else -1
    put_vals = sorted([v] if k == k1 else [v1, v])
    if -1 in (v1, v):
        return True      # the separator value is reserved
    parts = []
    cur = []
    for x in r:
        if x == -1:
            parts.append(cur)
            cur = []
        else:
            cur.append(x)
    parts.append(cur)
    return len(parts) == 3 and sorted(parts[0]) == put_vals and parts[1] == ([] if k == k1 else [v1]) and parts[2] == [v1, 1]


@ob(budget=200, bound='keys k1, k2 in [-3,3], policy in {use-first, use-last}; values unbounded', funcs=[F31 + ':map:merge'])
def map_merge_policies(k1: int, v1: int, k2: int, v2: int, q: int, last: bool) -> bool:
    """
    pre: 0 <= k1 <= 2 and 0 <= k2 <= 2 and 0 <= q <= 2
    post: _
    """
    m = {k2: v2, k1: v1} if not last else {k1: v1, k2: v2}
    if k1 == k2:
        m = {k1: v2 if last else v1}
    return ev(T['mmerge'], k1=k1, v1=v1, k2=k2, v2=v2, q=q, p='use-last' if last else 'use-first') == ([m[q]] if q in m else [])


@ob(budget=120, bound='integer key k1 in [-3,3] and the string key "a": ? lookup = map:get', funcs=['elementpath/xpath31/_xpath31_operators.py:?'])
def map_lookup_operator(k1: int, v1: int, v2: int, q: int) -> bool:
    """
    pre: -3 <= k1 <= 3 and -3 <= q <= 3
    post: _
    """
    return ev(T['mlookup'], k1=k1, v1=v1, v2=v2, q=q) == ([v1] if q == k1 else []) and ev(T['mlookup'], k1=k1, v1=v1, v2=v2, q='a') == [v2]


# --- added after seeded-change review: key identity across types in map:merge and constructors -----------------------------------

T.update(parse_all({
    'mix_merge': 'map:merge((map{$k: "A"}, map{string($k): "B"}), map{"duplicates": $p})',
    'mix_ctor': 'map{$k: "A", string($k): "B"}', 'mix_put': 'map:put(map{$k: "A"}, string($k), "B")',
    'mix_merge_rev': 'map:merge((map{string($k): "B"}, map{$k: "A"}))',
    'num_keys': 'map:merge((map{$k: "A"}, map{xs:decimal($k): "B"}, map{xs:double($k): "C"}), map{"duplicates": "use-last"})',
}))
KEYS31 = (0, 1, -1, 7, 10)


@ob(budget=200, bound='integer key k from {0,1,-1,7,10} and the string key string(k): different keys in constructors, map:put and map:merge (5 policies chosen by the solver)',
    funcs=['elementpath/compare.py:same_key', F31 + ':map:merge', 'elementpath/xpath_tokens/maps.py'])
def map_key_identity_across_types(ki: int, pi: int) -> bool:
    """
    pre: 0 <= ki <= 4 and 0 <= pi <= 3
    post: _
    """
    k = KEYS31[ki]
    policy = ('use-first', 'use-last', 'use-any', 'combine')[pi]
    for key in ('mix_ctor', 'mix_put', 'mix_merge_rev'):
        m = T[key].evaluate(XPathContext(item=1, variables={'k': k}))
        if len(m) != 2 or m(k) != 'A' or m(str(k)) != 'B':
            return False
    m = T['mix_merge'].evaluate(XPathContext(item=1, variables={'k': k, 'p': policy}))
    if len(m) != 2 or m(k) != 'A' or m(str(k)) != 'B':
        return False
    try:
        m = T['mix_merge'].evaluate(XPathContext(item=1, variables={'k': k, 'p': 'reject'}))
        if len(m) != 2:
            return False
    except ElementPathError:
        return False
    return True


@ob(budget=60, tbudget=600, kind='hunt', bound='integer, decimal and double keys of equal value from {0,1,-1,7,10} are the same key (Decimal/double construction: bug-hunting)',
    funcs=['elementpath/compare.py:same_key', F31 + ':map:merge'])
def map_numeric_keys_same(ki: int) -> bool:
    """
    pre: 0 <= ki <= 4
    post: _
    """
    k = KEYS31[ki]
    n = T['num_keys'].evaluate(XPathContext(item=1, variables={'k': k}))
    return len(n) == 1 and n(k) == 'C'


# --- added after round-2 review: merge policies reject/combine and operand immutability; falsy values; join operand ---------------

T.update(parse_all({
    'combine': 'let $m := map{$k1: ($v1, $v2)} return (map:merge(($m, map{$k2: $v}), map{"duplicates": "combine"})($q), -7, $m($k1))',
    'reject': 'map:size(map:merge((map{$k1: $v1}, map{$k2: $v2}), map{"duplicates": "reject"}))',
    'put_falsy': 'let $m := map:put(map{1: 5}, $k, $v) return ($m($k), map:size($m))',
    'join_operand': 'let $a := [$x0, $x1], $b := [$x2] return (array:size(array:join(($a, $b))), array:size($a), array:size($b), $a?*, $b?*)',
    'flatten_operand': 'let $a := [$x0, [$x1]] return (array:flatten(($a, $x2)), array:size($a))',
}))


@ob(budget=200, bound='keys in [0,2], values unbounded: combine and reject policies; the first operand map is unchanged after combine',
    funcs=[F31 + ':map:merge'])
def map_merge_combine_reject(k1: int, k2: int, v1: int, v2: int, v: int, q: int) -> bool:
    """
    pre: 0 <= k1 <= 2 and 0 <= k2 <= 2 and 0 <= q <= 2 and v1 != -7 and v2 != -7 and v != -7
    post: _
    """
    want = {k1: [v1, v2]}
    if k2 == k1:
        want[k1] = [v1, v2, v]
    else:
        want[k2] = [v]
    r = ev(T['combine'], k1=k1, k2=k2, v1=v1, v2=v2, v=v, q=q)
    if r != want.get(q, []) + [-7, v1, v2]:
        return False
    try:
        n = ev(T['reject'], k1=k1, k2=k2, v1=v1, v2=v2)
    except ElementPathError as e:
        return k1 == k2 and err_code(e) == 'FOJS0003'
    return k1 != k2 and n == [2]


@ob(budget=120, bound='key in [0,2]; value: integer in [-1,1] (incl. 0), boolean, string of length <= 1 (incl. empty): map:get(map:put(m,k,v),k) = v also for falsy values',
    funcs=[F31 + ':map:put'])
def map_put_falsy_values(k: int, vi: int, vb: bool, vs: str) -> bool:
    """
    pre: 0 <= k <= 2 and -1 <= vi <= 1 and len(vs) <= 1
    post: _
    """
    size = 1 if k == 1 else 2
    return ev(T['put_falsy'], k=k, v=vi) == [vi, size] and ev(T['put_falsy'], k=k, v=vb) == [vb, size] \
        and ev(T['put_falsy'], k=k, v=vs) == [vs, size]


@ob(budget=120, bound='3 unbounded integer members: operands of array:join / array:flatten bound to variables are unchanged',
    funcs=[F31 + ':array:join', F31 + ':array:flatten'])
def array_join_operand_unchanged(x0: int, x1: int, x2: int) -> bool:
    """
    post: _
    """
    return ev(T['join_operand'], x0=x0, x1=x1, x2=x2) == [3, 2, 1, x0, x1, x2] \
        and ev(T['flatten_operand'], x0=x0, x1=x1, x2=x2) == [x0, x1, x2, 2]


# --- added after round-3 seeded changes and defects: keys of mixed, not mutually comparable types; NaN keys; subarray upper bound ----------

from decimal import Decimal as _Dec  # noqa: E402
from elementpath.datatypes import Date10 as _Date, DayTimeDuration as _DTD, Float as _Flt  # noqa: E402
T.update(parse_all({
    'mk_put2': 'map:put(map:put(map{}, $k1, 1), $k2, 2)', 'mk_ctor2': 'map:merge((map:entry($k1, 1), map:entry($k2, 2)), map{"duplicates": "use-last"})',
    'mk_all': 'let $m := map:put(map:put(map{"z": 0}, $k1, 1), $k2, 2) return (map:size($m), map:contains($m, $k1), map:contains($m, $k2), '
              'map:get($m, $k1), $m($k2), map:size(map:remove($m, $k1)), map:size(map:remove($m, ($k1, $k2))), '
              'every $k in map:keys($m) satisfies map:contains($m, $k))',
    'mk_merge': 'map:size(map:merge((map{"z": 0}, map:entry($k1, 1), map:entry($k2, 2))))',
}))
MIXED_KEYS = (3, _Dec('3'), 3.0, 'a', _Date(2020, 1, 1), _DTD(seconds=60), float('nan'), _Flt('NaN'), _Dec('2.5'), 'b')
#              same numeric key -------                                          same NaN key -----------
_CLASS = (0, 0, 0, 1, 2, 3, 4, 4, 5, 6)


_MK = '''
@ob(budget={budget}, kind={kind!r}, family='mixed-keys', bound='first key = entry {i} of a table of 10 values of 7 types (integer / decimal / double of equal value, strings, '
                      'xs:date, xs:dayTimeDuration, double and float NaN), second key: any entry (index chosen by the solver): map:put/get/contains/remove/'
                      'keys/merge identify keys by op:same-key (numerically equal numbers and the NaNs are one key; values of not comparable '
                      'types are different keys, no error)',
    funcs=[F31 + ':map:put', F31 + ':map:contains', F31 + ':map:remove', F31 + ':map:merge', 'elementpath/xpath_tokens/maps.py:XPathMap.__init__',
           'elementpath/helpers.py:not_equal'])
def map_keys_of_mixed_types_{i}(j: int) -> bool:
    """
    pre: 0 <= j <= 9
    post: _
    """
    i = {i}
    j = [k for k in range(10) if k == j][0]
    k1, k2 = MIXED_KEYS[i], MIXED_KEYS[j]
    same = _CLASS[i] == _CLASS[j]
    r = ev(T['mk_all'], k1=k1, k2=k2)
    want = [2 if same else 3, True, True, 2 if same else 1, 2, 1 if same else 2, 1, True]
    return r == want and ev(T['mk_merge'], k1=k1, k2=k2) == [2 if same else 3]
'''
from harness.common import define  # noqa: E402
for _i in range(10):
    # first keys xs:date / xs:dayTimeDuration: the datetime model does not exhaust (paths keep forking): bug-hunting
    define(_MK.format(i=_i, budget=120 if _i in (4, 5) else 200, kind='hunt' if _i in (4, 5) else 'main'), globals())


# recorded findings: key identity is the identity of Python dict keys (hash + ==) of the datatype classes
T.update(parse_all({'kf_bool': '(map:contains(map{1: "a"}, true()), map:size(map:merge((map{1: "a"}, map{true(): "b"}))))',
                    'kf_time': 'map:size(map{xs:date($d): 1, xs:time($t): 2})'}))


@ob(budget=60, kind='witness', finding='C15-boolean-numeric-key', bound='the keys true() and 1 (op:same-key is false across boolean and numeric types)',
    funcs=['elementpath/xpath_tokens/maps.py:XPathMap', F31 + ':map:contains'])
def known_boolean_numeric_key(k: int) -> bool:
    """
    pre: k == 1
    post: _
    """
    return ev(T['kf_bool']) == [False, 2]


@ob(budget=60, kind='witness', finding='C15-date-time-key-collision', bound='the keys xs:date("2000-01-01") and xs:time("00:00:00") (equal hashes, == raises TypeError)',
    funcs=['elementpath/xpath_tokens/maps.py:XPathMap._evaluate', 'elementpath/datatypes/datetime.py:AbstractDateTime.__hash__/__eq__'])
def known_date_time_key_collision(k: int) -> bool:
    """
    pre: k == 1
    post: _
    """
    return ev(T['kf_time'], d='2000-01-01', t='00:00:00') == [2]


# keys of types whose == raises TypeError (xs:date vs xs:time).  CrossHair's dict model compares a looked-up key with `==` against every
# stored key (a real dict only on equal hashes), so a map HOLDING both kinds of key cannot be driven under the solver (SPURIOUS TypeError,
# or the tracer crawling through a patched model): only the operations that do not look a key up in such a dict are checked here.
from elementpath.datatypes import Time as _Time  # noqa: E402
T.update(parse_all({'dt_sep': '(map:size(map:remove(map:entry($d, 1), $t)), map:contains(map:entry($d, 1), $t), map:size(map:remove(map:entry($t, 1), ($d, 7))))'}))


@ob(budget=60, tbudget=300, kind='hunt', bound='an xs:date key and an xs:time key (2 x 2 values chosen by the solver; == between them raises TypeError): map:remove '
                      'and map:contains with a key of the other type leave the map alone and raise nothing (datetime model keeps forking: bug-hunting)',
    funcs=[F31 + ':map:remove', F31 + ':map:contains', 'elementpath/helpers.py:not_equal'])
def map_remove_key_of_other_type(di: int, ti: int) -> bool:
    """
    pre: 0 <= di <= 1 and 0 <= ti <= 1
    post: _
    """
    d = _Date(1999, 12, 31) if di == 1 else _Date(2020, 1, 1)
    t = _Time(23, 59, 59) if ti == 1 else _Time(10, 0, 0)
    return ev(T['dt_sep'], d=d, t=t) == [1, False, 1]


T.update(parse_all({'wild_map': 'let $m := map{"a": ($x, $y), "b": $z, "e": ()} return (count($m?*), sum($m?*), count(map{"e": ()}?*), count($m ! ?*), count(([$x, ($y, $z)], $m)?*))'}))


@ob(budget=120, bound='x, y, z unbounded integers: the wildcard lookup ?* on a map (postfix and unary) returns the concatenation of the entry values '
                      '(sequence values flattened, empty values contribute nothing)',
    funcs=['elementpath/xpath31/_xpath31_operators.py:LookupOperatorToken.select'])
def map_wildcard_lookup_flattens_values(x: int, y: int, z: int) -> bool:
    """
    post: _
    """
    return ev(T['wild_map'], x=x, y=y, z=z) == [3, x + y + z, 0, 3, 6]


# A map HOLDING keys of mutually incomparable types (xs:time / xs:date / integer / string): the map object is built with tracing
# switched off (real dict, hash first -- the dict model's linear `==` scan is what raises the spurious TypeError), the functions
# that SCAN its keys are then executed symbolically: entry order and the sought key are chosen by the solver.
from crosshair.tracers import NoTracing as _NoTracing  # noqa: E402
from harness.common import P31 as _P31  # noqa: E402
T.update(parse_all({'scan_keys': '(map:contains($m, $q), every $k in map:keys($m) satisfies map:contains($m, $k), map:size($m), '
                                 'count(map:keys($m)), map:contains($m, $absent))'}))
_PERMS3 = ((0, 1, 2), (0, 2, 1), (1, 0, 2), (1, 2, 0), (2, 0, 1), (2, 1, 0))


@ob(budget=120, tbudget=400, bound='maps of 3 entries whose keys are an xs:time, an xs:date and an integer or a string (== between the first two raises '
                      'TypeError), the 6 entry orders x 3 sought keys x 2 third-key kinds chosen by the solver: map:contains finds every '
                      'key map:keys reports, wherever an incomparable key is stored before it, and answers false for an absent key of a '
                      'fourth type (xs:dayTimeDuration); the map object is built concretely (real dict), the scan is symbolic',
    funcs=[F31 + ':map:contains', F31 + ':map:keys', 'elementpath/xpath_tokens/maps.py:XPathMap.keys'])
def map_contains_scans_past_incomparable_keys(p: int, j: int, third: int) -> bool:
    """
    pre: 0 <= p <= 5 and 0 <= j <= 2 and 0 <= third <= 1
    post: _
    """
    p = [k for k in range(6) if k == p][0]
    j = [k for k in range(3) if k == j][0]
    third = 1 if third == 1 else 0
    with _NoTracing():
        keys = (_Time(10, 0, 0), _Date(2020, 1, 1), 7 if third == 0 else 'k')
        order = _PERMS3[p]
        m = XPathMap(_P31, [(keys[i], i) for i in order])
        q = keys[j]
        absent = _DTD(seconds=60)
    return ev(T['scan_keys'], m=m, q=q, absent=absent) == [True, True, 3, 3, False]


T.update(parse_all({'het_ops': '(sum($m?*), count(map:for-each($m, function($k, $v) { $v })), map:size(map:remove($m, ($q, $r))), '
                               'map:contains(map:remove($m, ($q, $r)), $s), map:contains(map:remove($m, ($q, $r)), $q), '
                               'count(map:keys($m)), map:size($m), map:contains($m, $q) and map:contains($m, $r) and map:contains($m, $s))'}))


@ob(budget=150, tbudget=900, kind='hunt', bound='the same 3-entry maps with xs:time / xs:date / integer-or-string keys (6 orders x 3 rotations of the keys x 2 third-key kinds chosen by '
                      'the solver): ?*, map:for-each and map:remove of two of the three keys (a key of an incomparable type among those removed '
                      'or kept) agree with the dict model and leave the operand unchanged.  map:get / map:put / map:merge on such maps look a '
                      'key up in a dict holding both kinds: CrossHair dict model raises the TypeError itself (SPURIOUS), so they are outside',
    funcs=[F31 + ':map:remove', F31 + ':map:for-each', 'elementpath/xpath31/_xpath31_operators.py:LookupOperatorToken.select',
           'elementpath/helpers.py:not_equal'])
def map_functions_on_incomparable_keys(p: int, j: int, third: int) -> bool:
    """
    pre: 0 <= p <= 5 and 0 <= j <= 2 and 0 <= third <= 1
    post: _
    """
    p = [k for k in range(6) if k == p][0]
    j = [k for k in range(3) if k == j][0]
    third = 1 if third == 1 else 0
    with _NoTracing():
        keys = (_Time(10, 0, 0), _Date(2020, 1, 1), 7 if third == 0 else 'k')
        order = _PERMS3[p]
        m = XPathMap(_P31, [(keys[i], i) for i in order])
        q, r, s = keys[j], keys[(j + 1) % 3], keys[(j + 2) % 3]
    return ev(T['het_ops'], m=m, q=q, r=r, s=s) == [3, 3, 1, True, False, 3, 3, True]
