"""C18 — sequence-type judgements: instance of, treat as, subtype relation, declared return types (DESIGN §4 C18)."""
from decimal import Decimal
from harness.common import ob, define, parse_all, ev, L, ElementPathError, err_code, XPathContext, P31
from elementpath.sequence_types import match_sequence_type, is_sequence_type_restriction

ST = 'elementpath/sequence_types.py'
INFO = dict(
    level='other',
    explanation='Bounded symbolic execution (CrossHair + z3): for every sequence type of an enumerated set (atomic names of the numeric '
                'and string hierarchy, item(), xs:anyAtomicType, empty-sequence(), occurrence indicators) one generated condition '
                'evaluates `$v instance of T`, match_sequence_type and `$v treat as T` on a value whose carrier is enumerated '
                '(integer, string, decimal, boolean) and whose payload and LENGTH (0..3) are solver variables, against an independent '
                'reference matcher. The subtype relation is checked reflexive and transitive on the enumerated set, and sound '
                '(match(V,S) and S <= T implies match(V,T)) for symbolic V. Built-in functions are called with symbolic arguments and '
                'their results matched against the registered return type.',
    assumptions=['types enumerated (about 30 strings, 900 ordered pairs); values symbolic', 'sequences of length 0..3',
                 'schema types, kind tests with arguments, deep function tests, map/array tests with nested types are outside'])
ATOMIC = ['xs:integer', 'xs:decimal', 'xs:string', 'xs:boolean', 'xs:anyAtomicType', 'xs:long', 'xs:nonNegativeInteger', 'xs:double',
          'xs:numeric', 'item()']
OCC = ['', '?', '*', '+']
TYPES = [a + o for a in ATOMIC for o in OCC] + ['empty-sequence()']
# reference hierarchy: which carriers are instances of which atomic item type
CARRIERS = {'int': 'S', 'str': 'S', 'bool': 'S', 'dec': 'S'}


def _item_ok(carrier, item, t):
    """reference matcher for ONE item of the given Python carrier against an atomic item type"""
    if t == 'item()' or t == 'xs:anyAtomicType':
        return True
    if carrier == 'int':
        if t in ('xs:integer', 'xs:decimal', 'xs:numeric'):
            return True
        if t == 'xs:long':
            return True       # a plain Python int is an xs:integer value; xs:long membership is by derived class only
        return False
    if carrier == 'str':
        return t == 'xs:string'
    if carrier == 'bool':
        return t == 'xs:boolean'
    if carrier == 'dec':
        return t in ('xs:decimal', 'xs:numeric')
    return False


def _occ_ok(n, occ):
    return {'': n == 1, '?': n <= 1, '*': True, '+': n >= 1}[occ]


def _split(t):
    if t == 'empty-sequence()':
        return t, ''
    return (t[:-1], t[-1]) if t[-1] in '?*+' else (t, '')


TOK_INST = {t: P31.parse('$v instance of %s' % t) for t in TYPES}
TOK_TREAT = {t: P31.parse('$v treat as %s' % t) for t in TYPES}
DERIVED_ONLY = ('xs:long', 'xs:nonNegativeInteger')     # membership decided by the derived Python class: plain ints are not instances


def _expected(carrier, n, t):
    base, occ = _split(t)
    if base == 'empty-sequence()':
        return n == 0
    if not _occ_ok(n, occ):
        return False
    if n == 0:
        return True
    if base in DERIVED_ONLY:
        return False
    return _item_ok(carrier, None, base)


_SRC = '''
@ob(budget=90, family='instance-treat', bound='value: {carrier} sequence of length 0..3 (payload {payload}); type {t}',
    funcs=[ST + ':match_sequence_type', 'elementpath/xpath2/_xpath2_operators.py:instance of / treat as'])
def inst_{name}(s0: {pt}, s1: {pt}, s2: {pt}, n: int) -> bool:
    """
    pre: 0 <= n <= 3{extra}
    post: _
    """
    S = [{conv}(s0), {conv}(s1), {conv}(s2)][:n]
    want = _expected({carrier!r}, n, {t!r})
    if ev(TOK_INST[{t!r}], v=S) != [want]:
        return False
    if match_sequence_type(S if n != 1 else S[0], {t!r}, P31) != want:
        return False
    try:
        r = ev(TOK_TREAT[{t!r}], v=S)
    except ElementPathError as e:
        return (not want) and err_code(e) == 'XPDY0050'
    return want and r == S
'''
_k = 0
for _t in TYPES:
    for _carrier, _pt, _conv, _payload, _extra in (('int', 'int', 'int', 'unbounded integers', ''),
                                                   ('str', 'str', 'str', 'strings of length <= 1', ' and len(s0) <= 1 and len(s1) <= 1 and len(s2) <= 1'),
                                                   ('bool', 'bool', 'bool', 'booleans', '')):
        _k += 1
        _name = '%s_%s' % (_carrier, _t.replace('xs:', '').replace('()', '').replace('?', '_opt').replace('*', '_star').replace('+', '_plus').replace('-', '_'))
        # quick tier: integers against every type, other carriers against a third of the types
        _tier = 'quick' if _carrier == 'int' or _k % 3 == 0 else 'thorough'
        define(_SRC.replace("@ob(budget=90,", "@ob(budget=90, tier=%r," % _tier).format(
            carrier=_carrier, pt=_pt, conv=_conv, payload=_payload, extra=_extra, t=_t, name=_name), globals())


def _V(s0, s1, n):
    S = [s0, s1][:n]
    return S if n != 1 else S[0]


@ob(budget=300, bound='all %d x %d ordered pairs of enumerated types; V: integer sequence of length 0..2 (symbolic)' % (len(TYPES), len(TYPES)),
    funcs=[ST + ':is_sequence_type_restriction', ST + ':match_sequence_type'])
def subtype_sound_int(s0: int, s1: int, n: int) -> bool:
    """
    pre: 0 <= n <= 2
    post: _
    """
    V = _V(s0, s1, n)
    m = {t: match_sequence_type(V, t, P31) for t in TYPES}
    for s in TYPES:
        if not m[s]:
            continue
        for t in TYPES:
            if is_sequence_type_restriction(t, s) and not m[t]:
                return False
    return True


@ob(budget=300, bound='all ordered pairs of enumerated types; V: string sequence of length 0..2 (strings of length <= 1)',
    funcs=[ST + ':is_sequence_type_restriction', ST + ':match_sequence_type'])
def subtype_sound_str(s0: str, s1: str, n: int) -> bool:
    """
    pre: 0 <= n <= 2 and len(s0) <= 1 and len(s1) <= 1
    post: _
    """
    V = _V(s0, s1, n)
    m = {t: match_sequence_type(V, t, P31) for t in TYPES}
    for s in TYPES:
        if not m[s]:
            continue
        for t in TYPES:
            if is_sequence_type_restriction(t, s) and not m[t]:
                return False
    return True


@ob(engine='z3', budget=60, bound='enumerated types: reflexivity on all, transitivity on all ordered triples (the relation is a finite Boolean table read from the code; z3 decides the two laws over it)',
    funcs=[ST + ':is_sequence_type_restriction'])
def subtype_reflexive_transitive(ctx):
    import z3
    from harness.e2util import Queries, mval
    q = Queries(timeout_s=30, diff_binary=False)
    n = len(TYPES)
    R = z3.Function('R', z3.IntSort(), z3.IntSort(), z3.BoolSort())
    facts = []
    for i, s in enumerate(TYPES):
        for j, t in enumerate(TYPES):
            facts.append(R(i, j) == bool(is_sequence_type_restriction(t, s)))     # R(i,j): TYPES[i] is a restriction of TYPES[j]
    a, b, c = z3.Ints('a b c')
    rng = [0 <= a, a < n, 0 <= b, b < n, 0 <= c, c < n]
    cex = []
    res, m = q.check('reflexive', facts + rng + [z3.Not(R(a, a))])
    if res == 'sat':
        cex.append(dict(call='replay_reflexive(%r)' % TYPES[mval(m, a)], message='not reflexive on %s' % TYPES[mval(m, a)]))
    res, m = q.check('transitive', facts + rng + [R(a, b), R(b, c), z3.Not(R(a, c))])
    if res == 'sat':
        tr = (TYPES[mval(m, a)], TYPES[mval(m, b)], TYPES[mval(m, c)])
        cex.append(dict(call='replay_transitive(%r, %r, %r)' % tr, message='not transitive on %s <= %s <= %s' % tr))
    q.samples.append('%d types' % n)
    return q.result(cex)


def replay_reflexive(t):
    return is_sequence_type_restriction(t, t)


def replay_transitive(a, b, c):
    return not (is_sequence_type_restriction(b, a) and is_sequence_type_restriction(c, b)) or is_sequence_type_restriction(c, a)


# --- declared return types of built-in functions ------------------------------------------------------------------------------

FUNCS = {
    'count': ('count($S)', 'S'), 'sum': ('sum($S)', 'S'), 'avg': ('avg($S)', 'S'), 'max': ('max($S)', 'S'), 'abs': ('abs($a)', 'a'),
    'string-length': ('string-length($s)', 's'), 'contains': ('contains($s, $t)', 'st'), 'concat': ('concat($s, $t)', 'st'),
    'string': ('string($a)', 'a'), 'number': ('number($s)', 's'),
    'tokenize': ('tokenize($s, "a")', 's'), 'index-of': ('index-of($S, $a)', 'Sa'), 'reverse': ('reverse($S)', 'S'),
    'string-join': ('string-join(($s, $t), "-")', 'st'), 'boolean': ('boolean($a)', 'a'), 'not': ('not($a)', 'a'),
    'empty': ('empty($S)', 'S'), 'distinct-values': ('distinct-values($S)', 'S'), 'ends-with': ('ends-with($s, $t)', 'st'),
    'upper-case': ('upper-case($s)', 's'), 'string-to-codepoints': ('string-to-codepoints($s)', 's'),
    'compare': ('compare($s, $t)', 'st'), 'head': ('head($S)', 'S'), 'remove': ('remove($S, $a)', 'Sa'),
}
TOK_F = {k: P31.parse(v[0]) for k, v in FUNCS.items()}


def _return_type(name):
    cls = P31.symbol_table[name]
    st = getattr(cls, 'sequence_types', None)
    return st[-1] if st else None


_SRCF = '''
@ob(budget={budget}, kind={kind!r}, family='return-type', tier={tier!r}, bound='fn:{fname} with symbolic arguments (ints unbounded, strings of length <= 2, sequences of length 0..2): result matches the registered return type',
    funcs=['elementpath/xpath1/xpath1_parser.py:function registration', ST + ':match_sequence_type'])
def returns_{pyname}(s0: int, s1: int, n: int, a: int, s: str, t: str) -> bool:
    """
    pre: 0 <= n <= 2 and len(s) <= 2 and len(t) <= 2
    post: _
    """
    rt = _return_type({fname!r})
    try:
        r = TOK_F[{fname!r}].evaluate(XPathContext(item=1, variables=dict(S=[s0, s1][:n], a=a, s=s, t=t)))
    except ElementPathError:
        return True
    return rt is None or match_sequence_type(r, rt, P31)
'''
for _i, _f in enumerate(sorted(FUNCS)):
    # fn:avg / fn:number / fn:string on the symbolic arguments keep forking (float and string models): bug-hunting; their empty-sequence
    # case is decided by returns_on_empty_sequence
    _h = _f in ('avg', 'number', 'string')
    define(_SRCF.format(fname=_f, pyname=_f.replace('-', '_'), tier='quick', budget=60 if _h else 90, kind='hunt' if _h else 'main'), globals())


# --- added after round-2 seeded changes: map(K, V) / array(T) / function tests, also with nested value types -----------------------

MTYPES = ['map(*)', 'map(xs:integer, xs:string)', 'map(xs:integer, xs:integer)', 'map(xs:string, xs:integer)', 'map(xs:integer, item()*)',
          'map(xs:integer, map(xs:string, xs:integer))', 'map(xs:integer, map(xs:string, xs:string))', 'map(xs:integer, array(xs:integer))',
          'map(xs:integer, function(xs:integer, xs:integer) as xs:integer)', 'array(*)', 'array(xs:integer)', 'array(xs:string)',
          'array(map(xs:integer, xs:string))', 'function(*)', 'item()', 'xs:integer']
TOK_M = {t: P31.parse('$v instance of %s' % t) for t in MTYPES}
VALUES = parse_all({
    'm_int_str': 'map{$k: $s}', 'm_int_int': 'map{$k: $k2}', 'm_str_int': 'map{$s: $k}', 'm_nested': 'map{$k: map{$s: $k2}}',
    'm_arr': 'map{$k: [$k2]}', 'm_fun': 'map{$k: function($a as xs:integer, $b as xs:integer) as xs:integer { $a + $b }}',
    'a_int': '[$k, $k2]', 'a_str': '[$s]', 'a_map': '[map{$k: $s}]', 'a_empty': '[]', 'm_empty': 'map{}'})
# reference: which value shapes match which types
MATCH = {
    'm_int_str': {'map(*)', 'map(xs:integer, xs:string)', 'map(xs:integer, item()*)', 'function(*)', 'item()'},
    'm_int_int': {'map(*)', 'map(xs:integer, xs:integer)', 'map(xs:integer, item()*)', 'function(*)', 'item()'},
    'm_str_int': {'map(*)', 'map(xs:string, xs:integer)', 'function(*)', 'item()'},
    'm_nested': {'map(*)', 'map(xs:integer, item()*)', 'map(xs:integer, map(xs:string, xs:integer))', 'function(*)', 'item()'},
    'm_arr': {'map(*)', 'map(xs:integer, item()*)', 'map(xs:integer, array(xs:integer))', 'function(*)', 'item()'},
    'm_fun': {'map(*)', 'map(xs:integer, item()*)', 'map(xs:integer, function(xs:integer, xs:integer) as xs:integer)', 'function(*)', 'item()'},
    'a_int': {'array(*)', 'array(xs:integer)', 'function(*)', 'item()'},
    'a_str': {'array(*)', 'array(xs:string)', 'function(*)', 'item()'},
    'a_map': {'array(*)', 'array(map(xs:integer, xs:string))', 'function(*)', 'item()'},
    'a_empty': {'array(*)', 'array(xs:integer)', 'array(xs:string)', 'array(map(xs:integer, xs:string))', 'function(*)', 'item()'},
    'm_empty': {t for t in MTYPES if t.startswith('map(')} | {'function(*)', 'item()'},
}
_MSRC = '''
@ob(budget=120, family='map-array-types', bound='value {shape} (integer keys in [0,2], string keys over {{"", a, b}}, other members unbounded integers) against {n} map/array/function types incl. nested value types',
    funcs=[ST + ':match_sequence_type (map/array/function branches)', 'instance of'])
def inst_struct_{shape}(k: int, k2: int, s: str) -> bool:
    """
    pre: len(s) <= 1 and 0 <= k <= 2 and (len(s) == 0 or 'a' <= s <= 'b')
    post: _
    """
    v = VALUES[{shape!r}].evaluate(XPathContext(item=1, variables=dict(k=k, k2=k2, s=s)))
    for t in MTYPES:
        want = t in MATCH[{shape!r}]
        if TOK_M[t].evaluate(XPathContext(item=1, variables=dict(v=v))) != want:
            return False
        if match_sequence_type(v, t, P31) != want:
            return False
    return True
'''
for _shape in VALUES:
    define(_MSRC.format(shape=_shape, n=len(MTYPES)), globals())


# --- kind tests on nodes of a small document (xsi:nil chosen by the solver) ---------------------------------------------------------

from harness.common import pyet as _pyet  # noqa: E402
_ETK = _pyet()
XSI = 'http://www.w3.org/2001/XMLSchema-instance'
KT = parse_all({k: '/a/b instance of %s' % k for k in (
    'element()', 'element(b)', 'element(c)', 'element(*)', 'element(b, xs:untyped)', 'element(b, xs:untyped?)', 'element(*, xs:untyped?)',
    'node()', 'item()', 'text()', 'comment()', 'attribute()', 'document-node()', 'element()+', 'element()?')})
KT2 = parse_all({'text': '/a/b/text() instance of text()', 'comment': '/a/comment() instance of comment()', 'comment_node': '/a/comment() instance of node()',
                 'pi': '/a/processing-instruction() instance of processing-instruction()', 'attr': '/a/b/@x instance of attribute(x)',
                 'attr_other': '/a/b/@x instance of attribute(y)', 'doc': '(/) instance of document-node()', 'doc_el': '(/) instance of document-node(element(a))',
                 'seq': '/a/node() instance of node()+', 'seq_el': '/a/node() instance of element()+', 'empty': '/a/zz instance of element()?',
                 'empty1': '/a/zz instance of element()'})


@ob(budget=120, bound='document <a><b x=.. [xsi:nil=true|false|absent]>t</b><!--c--><?p q?></a>, nil state chosen by the solver: kind tests by name/kind/occurrence; a nilled element needs T? in element(N, T)',
    funcs=['elementpath/xpath2/_xpath2_operators.py:select__element_kind_test and other kind tests', ST + ':match_sequence_type'])
def kind_tests_on_nodes(nil: int) -> bool:
    """
    pre: 0 <= nil <= 2
    post: _
    """
    a = _ETK.Element('a')
    b = _ETK.SubElement(a, 'b')
    b.set('x', '1')
    b.text = 't'
    if nil:
        b.set('{%s}nil' % XSI, 'true' if nil == 1 else 'false')
    a.append(_ETK.Comment('c'))
    a.append(_ETK.ProcessingInstruction('p', 'q'))
    doc = _ETK.ElementTree(a)
    nilled = nil == 1
    want = {'element()': True, 'element(b)': True, 'element(c)': False, 'element(*)': True, 'element(b, xs:untyped)': not nilled,
            'element(b, xs:untyped?)': True, 'node()': True, 'item()': True, 'text()': False,
            'comment()': False, 'document-node()': False, 'element()+': True, 'element()?': True}
    for k, w in want.items():
        if KT[k].evaluate(XPathContext(doc)) != w:
            return False
    want2 = {'text': True, 'comment': True, 'comment_node': True, 'pi': True, 'attr': True, 'attr_other': False, 'doc': True, 'doc_el': True,
             'seq': True, 'seq_el': False, 'empty': True, 'empty1': False}
    for k, w in want2.items():
        if KT2[k].evaluate(XPathContext(doc)) != w:
            return False
    return True


@ob(budget=60, kind='witness', finding='C18-kindtest-instance-of', bound='element b with an attribute, not nilled: instance of attribute() and element(*, xs:untyped?)',
    funcs=['elementpath/xpath2/_xpath2_operators.py:evaluate__instance_expression (kind test branch)'])
def known_kindtest_instance_of(nil: int) -> bool:
    """
    pre: nil == 0 or nil == 2
    post: _
    """
    a = _ETK.Element('a')
    b = _ETK.SubElement(a, 'b')
    b.set('x', '1')
    if nil:
        b.set('{%s}nil' % XSI, 'false')
    doc = _ETK.ElementTree(a)
    return KT['attribute()'].evaluate(XPathContext(doc)) is False and KT['element(*, xs:untyped?)'].evaluate(XPathContext(doc)) is True


# --- added after round-3 seeded changes: function tests on named references below the maximum arity; return types of the duration
#     component functions on negative durations -----------------------------------------------------------------------------------------

FT_CASES = (('substring#2', 'function(xs:string?, xs:double) as xs:string', True), ('substring#2', 'function(xs:string?, xs:double, xs:double) as xs:string', False),
            ('substring#3', 'function(xs:string?, xs:double, xs:double) as xs:string', True), ('substring#3', 'function(xs:string?, xs:double) as xs:string', False),
            ('round#1', 'function(xs:numeric?) as xs:numeric?', True), ('round#2', 'function(xs:numeric?, xs:integer) as xs:numeric?', True),
            ('round#1', 'function(xs:numeric?, xs:integer) as xs:numeric?', False), ('name#0', 'function() as xs:string', True),
            ('name#1', 'function(node()?) as xs:string', True), ('name#0', 'function(node()?) as xs:string', False),
            ('string-join#1', 'function(xs:anyAtomicType*) as xs:string', True), ('string-join#2', 'function(xs:anyAtomicType*, xs:string) as xs:string', True),
            ('string-join#1', 'function(xs:anyAtomicType*, xs:string) as xs:string', False), ('substring#2', 'function(*)', True),
            ('substring(?, 2)', 'function(xs:string?) as xs:string', True), ('substring(?, 2)', 'function(xs:string?, xs:double) as xs:string', False))
TOK_FT = [P31.parse('(%s) instance of %s' % (r, t)) for r, t, _ in FT_CASES]
TOK_FT2 = [P31.parse('let $f := %s return ($f instance of %s, $f treat as function(*)) ' % (r, t)) for r, t, _ in FT_CASES]


@ob(budget=120, bound='16 (function reference, function test) cases with references of built-ins BELOW and AT their maximum arity (index chosen by '
                      'the solver): the test compares the first arity parameter types and the return type; arity mismatch never matches',
    funcs=['elementpath/xpath_tokens/functions.py:XPathFunction.match_function_test', ST + ':match_sequence_type'])
def function_test_on_optional_arity(i: int) -> bool:
    """
    pre: 0 <= i <= 15
    post: _
    """
    i = [k for k in range(16) if k == i][0]
    want = FT_CASES[i][2]
    r = TOK_FT2[i].evaluate(XPathContext(item=1))
    return TOK_FT[i].evaluate(XPathContext(item=1)) is want and r[0] is want and len(r) == 2


DUR_FUNCS = ('years-from-duration', 'months-from-duration', 'days-from-duration', 'hours-from-duration', 'minutes-from-duration', 'seconds-from-duration')
DUR_LEX = ('-P3DT10H', 'P3DT10H', '-PT10.5S', '-P1Y2M3DT10H5M', 'P1Y2M3DT10H5M6.5S', '-P14M', 'PT0S', '-PT36H')
TOK_DUR = {f: P31.parse('let $r := %s(xs:duration($d)) return ($r instance of %s, $r treat as %s, %s#1(xs:duration($d)))'
                        % (f, 'xs:decimal' if f.startswith('seconds') else 'xs:integer', 'xs:decimal' if f.startswith('seconds') else 'xs:integer', f))
           for f in DUR_FUNCS}
_DUR_WANT = {'-P3DT10H': (0, 0, -3, -10, 0, 0), 'P3DT10H': (0, 0, 3, 10, 0, 0), '-PT10.5S': (0, 0, 0, 0, 0, -10.5), '-P1Y2M3DT10H5M': (-1, -2, -3, -10, -5, 0),
             'P1Y2M3DT10H5M6.5S': (1, 2, 3, 10, 5, 6.5), '-P14M': (-1, -2, 0, 0, 0, 0), 'PT0S': (0, 0, 0, 0, 0, 0), '-PT36H': (0, 0, -1, -12, 0, 0)}


@ob(budget=200, bound='6 duration component functions x 8 durations (positive, negative, zero; indices chosen by the solver): the result is an '
                      'instance of the declared return type (xs:integer; xs:decimal for seconds), also through treat as and a dynamic call, '
                      'and has the component value',
    funcs=['elementpath/xpath2/_xpath2_functions.py:*-from-duration', ST + ':match_sequence_type'])
def duration_components_return_types(fi: int, di: int) -> bool:
    """
    pre: 0 <= fi <= 5 and 0 <= di <= 7
    post: _
    """
    fi = [k for k in range(6) if k == fi][0]
    d = DUR_LEX[[k for k in range(8) if k == di][0]]
    f = DUR_FUNCS[fi]
    r = TOK_DUR[f].evaluate(XPathContext(item=1, variables={'d': d}))
    want = _DUR_WANT[d][fi]
    rt = _return_type(f)
    return r[0] is True and r[1] == want and r[2] == want and (type(r[1]) is int) == (fi != 5) and match_sequence_type(r[1], rt, P31)


TOK_TREAT_STRUCT = parse_all({'fn': '($v treat as function(*), count($v treat as item()+))', 'map': 'map:size($v treat as map(*))', 'arr': 'array:size($v treat as array(*))',
                       'mapk': '($v treat as map(xs:integer, xs:integer))($k)', 'bad_arr': '$v treat as array(*)', 'bad_map': '$v treat as map(xs:string, item()*)',
                       'call': '($f treat as function(xs:integer) as xs:integer)($k)'})


@ob(budget=120, bound='k, k2 unbounded integers: treat as with map(), array() and function() tests returns the operand unchanged when it matches '
                      '(maps, arrays, inline functions, named references) and raises XPDY0050 otherwise',
    funcs=['elementpath/xpath2/_xpath2_operators.py:evaluate__treat_expression', ST + ':match_sequence_type'])
def treat_as_structured_types(k: int, k2: int) -> bool:
    """
    pre: 0 <= k <= 2
    post: _
    """
    m = VALUES['m_int_int'].evaluate(XPathContext(item=1, variables=dict(k=k, k2=k2, s='a')))
    a = VALUES['a_int'].evaluate(XPathContext(item=1, variables=dict(k=k, k2=k2, s='a')))
    f = P31.parse('function($x as xs:integer) as xs:integer { $x + $y }').evaluate(XPathContext(item=1, variables=dict(y=k2)))
    run = lambda key, **v: TOK_TREAT_STRUCT[key].evaluate(XPathContext(item=7, variables=v))   # noqa: E731
    r = run('fn', v=f)
    if not (isinstance(r, list) and len(r) == 2 and r[0] is f and r[1] == 1):
        return False
    if run('map', v=m) != 1 or run('arr', v=a) != 2 or run('mapk', v=m, k=k) != [k2] and run('mapk', v=m, k=k) != k2:
        return False
    c = run('call', f=f, k=k)
    if c != [k + k2] and c != k + k2:
        return False
    for key, v in (('bad_arr', m), ('bad_map', m), ('map', a)):
        try:
            run(key, v=v)
            return False
        except ElementPathError as e:
            if err_code(e) != 'XPDY0050':
                return False
    return True


@ob(budget=120, bound='every one of the 23 built-in function templates called with the EMPTY sequence for its sequence argument (integer argument in [-2, 2], string '
                      'arguments empty or one letter): the result matches the registered return type',
    funcs=['elementpath/xpath1/xpath1_parser.py:function registration', ST + ':match_sequence_type'])
def returns_on_empty_sequence(a: int, sb: bool, tb: bool) -> bool:
    """
    pre: -2 <= a <= 2
    post: _
    """
    s, t = ('a' if sb else ''), ('b' if tb else '')
    for f in sorted(FUNCS):
        rt = _return_type(f)
        try:
            r = TOK_F[f].evaluate(XPathContext(item=1, variables=dict(S=[], a=a, s=s, t=t)))
        except ElementPathError:
            continue
        if rt is not None and not match_sequence_type(r, rt, P31):
            return False
    return True


# --- added after round-4 seeded changes: function conversion rules applied to the RESULT of a function item with a declared type ----------

TOK_CONV = parse_all({
    'dbl': 'let $r := function() as xs:double { $k }() return ($r instance of xs:double, $r treat as xs:double, $r)',
    'dbl_seq': 'let $r := function($x) as xs:double* { ($x, $k) }($k2) return (count($r), every $v in $r satisfies $v instance of xs:double)',
    'str_uri': 'let $r := function() as xs:string { xs:anyURI($s) }() return ($r instance of xs:string, $r)',
    'untyped': 'let $r := function() as xs:integer { xs:untypedAtomic(string($k)) }() return ($r instance of xs:integer, $r)',
    'foreach': 'for-each(($k, $k2), function($x) as xs:double { $x }) ! (. instance of xs:double)',
    'dec': 'let $r := function() as xs:decimal { $k }() return ($r instance of xs:decimal, $r)',
    'flt': 'let $r := function() as xs:float { $k }() return ($r instance of xs:float, $r instance of xs:double)',
})


@ob(budget=120, bound='k in [-2, 2], k2 in [0, 1], s in {empty, a} (chosen by the solver, concrete on each path): the value returned by a function item with a '
                      'declared result type is the CONVERTED value (integer -> double / decimal / float promotion, anyURI -> string), also '
                      ' inside sequences and through for-each',
    funcs=['elementpath/xpath_tokens/functions.py:XPathFunction.validated_result', 'elementpath/xpath_tokens/base.py:cast_to_primitive_type'])
def declared_result_is_converted(k: int, k2: int, s: str) -> bool:
    """
    pre: -2 <= k <= 2 and 0 <= k2 <= 1 and len(s) <= 1 and all(c == 'a' for c in s)
    post: _
    """
    k = [j for j in range(-2, 3) if j == k][0]
    k2 = 1 if k2 == 1 else 0
    s = 'a' if s == 'a' else ''
    v = dict(k=k, k2=k2, s=s)
    r = ev(TOK_CONV['dbl'], **v)
    if r[:1] != [True] or len(r) != 3 or not isinstance(r[1], float) or r[1] != k or not isinstance(r[2], float):
        return False
    if ev(TOK_CONV['dbl_seq'], **v) != [2, True] or ev(TOK_CONV['foreach'], **v) != [True, True]:
        return False
    r = ev(TOK_CONV['str_uri'], **v)
    if r != [True, s] or not isinstance(r[1], str):
        return False
    return ev(TOK_CONV['dec'], **v)[:1] == [True] and ev(TOK_CONV['flt'], **v) == [True, False]


# --- added after round-4 seeded changes: arrays against typed function tests are judged per MEMBER (a member can be a sequence or an array) ----

ARR_FT = (('[(1, 2)]', 'function(xs:integer) as xs:integer', False), ('[(1, 2)]', 'function(xs:integer) as xs:integer+', True), ('[1, ()]', 'function(xs:integer) as xs:integer', False),
          ('[1, ()]', 'function(xs:integer) as xs:integer?', True), ('[[1, 2]]', 'function(xs:integer) as array(*)', True), ('[[1, 2]]', 'function(xs:integer) as xs:integer', False),
          ('[1, 2]', 'function(xs:integer) as xs:integer', True), ('[]', 'function(xs:integer) as xs:string', True), ('[(1, 2)]', 'array(xs:integer)', False),
          ('[(1, 2)]', 'array(xs:integer+)', True), ('["a", 1]', 'function(xs:integer) as xs:string', False), ('["a", 1]', 'function(xs:integer) as item()', True))
TOK_ARR_FT = [P31.parse('(%s instance of %s, (let $v := %s return $v) instance of %s)' % (a, t, a, t)) for a, t, _ in ARR_FT]


@ob(budget=120, bound='12 (array, type) cases with members that are sequences, empty or arrays (index chosen by the solver): a typed function test and '
                      'array(T) are judged on the members, not on the flattened items',
    funcs=['elementpath/xpath_tokens/arrays.py:XPathArray.match_function_test', ST + ':match_sequence_type'])
def array_function_test_per_member(i: int) -> bool:
    """
    pre: 0 <= i <= 11
    post: _
    """
    i = [k for k in range(12) if k == i][0]
    want = ARR_FT[i][2]
    return TOK_ARR_FT[i].evaluate(XPathContext(item=1)) == [want, want]
