"""C10 — atomic datatypes: lexical space (E3), integer bounds (E2), constructor/is_valid/cast agreement and binary casts (E1)."""
import re
import z3
from harness.common import ob, define, parse_all, ev, ElementPathError, err_code, XPathContext, PLAIN
from harness.e2util import Queries, mval
from verif_lib import rx, py2smt as PS
import elementpath.datatypes as dt

N = 'elementpath/datatypes/numeric.py'
INFO = dict(
    level='other',
    explanation='Three solver-decided parts. E3: the `pattern` regex of each datatype class (read from the running code) is compared '
                'with the lexical-space regex of the XSD specification as regular languages in z3 (two inclusions per type: nothing valid '
                'is rejected; nothing is accepted that is invalid even after the whitespace facet), for strings of any length. E2: '
                'Integer.__init__ is translated from source to z3 and its accept/reject decision is proved equal to the XSD bounds of '
                'the 12 bounded subtypes for every integer. E1: hexBinary/base64Binary value preservation and constructor / is_valid / '
                'cast / castable agreement on symbolic strings by CrossHair (agreement part: bug-hunting only).',
    assumptions=['lexical spaces: numeric, boolean, binary, duration, language and the date/time family; name types (Python \\w vs XML '
                 'NameChar), QName/NOTATION resolution, list types and canonical E-notation of doubles are outside',
                 'date/time patterns are compared in the direction "nothing valid is rejected"; the other direction is known finding '
                 'C10-datetime-is-valid (value-range checks only in constructors)',
                 'E2 stub: `self` is the integer value being constructed (int.__new__ is C code), class bounds read from the classes'])

D2 = '[0-9]{2}'
TZ = r'(Z|(\+|-)((0[0-9]|1[0-3]):[0-5][0-9]|14:00))?'
YEAR = r'-?([1-9][0-9]{3,}|0[0-9]{3})'
MONTH = r'(0[1-9]|1[0-2])'
DAY = r'(0[1-9]|[12][0-9]|3[01])'
TIME = r'(([01][0-9]|2[0-3]):[0-5][0-9]:[0-5][0-9](\.[0-9]+)?|(24:00:00(\.0+)?))'
DUR = (r'-?P((([0-9]+Y([0-9]+M)?([0-9]+D)?|([0-9]+M)([0-9]+D)?|([0-9]+D))(T(([0-9]+H)([0-9]+M)?([0-9]+(\.[0-9]+)?S)?|([0-9]+M)'
       r'([0-9]+(\.[0-9]+)?S)?|([0-9]+(\.[0-9]+)?S)))?)|(T(([0-9]+H)([0-9]+M)?([0-9]+(\.[0-9]+)?S)?|([0-9]+M)([0-9]+(\.[0-9]+)?S)?|'
       r'([0-9]+(\.[0-9]+)?S))))')
NUM = r'(\+|-)?([0-9]+(\.[0-9]*)?|\.[0-9]+)'
# type -> (XSD lexical-space regex as given by XML Schema Part 2 / XSD 1.1, directions to decide)
SPEC = {
    'Integer': (r'[\-+]?[0-9]+', 'both'),
    'DecimalProxy': (NUM, 'both'),
    'DoubleProxy': (NUM + r'([Ee](\+|-)?[0-9]+)?|(\+|-)?INF|NaN', 'both'),
    'Float': (NUM + r'([Ee](\+|-)?[0-9]+)?|(\+|-)?INF|NaN', 'both'),
    'BooleanProxy': (r'true|false|1|0', 'both'),
    'HexBinary': (r'([0-9a-fA-F]{2})*', 'both'),
    'Language': (r'[a-zA-Z]{1,8}(-[a-zA-Z0-9]{1,8})*', 'both'),
    'Duration': (DUR, 'both'),
    'DateTime': (YEAR + '-' + MONTH + '-' + DAY + 'T' + TIME + TZ, 'valid-accepted'),
    'Date': (YEAR + '-' + MONTH + '-' + DAY + TZ, 'valid-accepted'),
    'Time': (TIME + TZ, 'valid-accepted'),
    'GregorianYear': (YEAR + TZ, 'valid-accepted'),
    'GregorianYearMonth': (YEAR + '-' + MONTH + TZ, 'valid-accepted'),
    'GregorianMonthDay': ('--' + MONTH + '-' + DAY + TZ, 'valid-accepted'),
    'GregorianDay': ('---' + DAY + TZ, 'valid-accepted'),
    'GregorianMonth': ('--' + MONTH + TZ, 'valid-accepted'),
}
WS = [(9, 10), (13, 13), (32, 32)]


def _pattern_text(cls):
    return cls.pattern.pattern


def _lexical(ctx, names, directions=('valid-accepted', 'invalid-rejected')):
    q = Queries(timeout_s=30, diff_binary=False)
    cex = []
    for name in names:
        spec, dirs = SPEC[name]
        cls = getattr(dt, name)
        try:
            impl = rx.from_sre(_pattern_text(cls))
            ref = rx.from_sre(spec)
        except rx.NotRegular as e:
            return q.result(not_encodable='%s: %s' % (name, e))
        w = rx.member_witness(ref)
        q.samples.append('%s: spec member %r' % (name, w))
        if 'valid-accepted' in directions:
            res, wit, ncls, dts = rx.compare(ref, impl, mode='sub', timeout_ms=30000)
            q.n += 1
            q.solver_s += dts
            q.log.append(dict(query='%s: L_spec subset of L(pattern)' % name, result=res, witness=wit, classes=ncls, s=round(dts, 3)))
            if res == 'sat':
                cex.append(dict(call='replay_lexical(%r, %r, True)' % (name, wit),
                                message='%s: valid lexical form %r rejected by the pattern' % (name, wit)))
            elif res != 'unsat':
                q.unknown += 1
        if 'invalid-rejected' in directions and dirs == 'both':
            env = ('cat', [('rep', 0, None, ('set', WS)), ref, ('rep', 0, None, ('set', WS))])
            res, wit, ncls, dts = rx.compare(impl, env, mode='sub', timeout_ms=30000)
            q.n += 1
            q.solver_s += dts
            q.log.append(dict(query='%s: L(pattern) subset of WS* L_spec WS*' % name, result=res, witness=wit, classes=ncls, s=round(dts, 3)))
            if res == 'sat':
                cex.append(dict(call='replay_lexical(%r, %r, False)' % (name, wit),
                                message='%s: %r accepted by the pattern but outside the lexical space' % (name, wit)))
            elif res != 'unsat':
                q.unknown += 1
    return q.result(cex)


def replay_lexical(name, s, should_be_valid):
    cls = getattr(dt, name)
    spec = SPEC[name][0]
    in_spec = re.fullmatch(spec, s.strip(' \t\n\r')) is not None
    if should_be_valid:
        return not (re.fullmatch(spec, s) is not None and not cls.is_valid(s))
    return not (cls.is_valid(s) and not in_spec)


@ob(engine='z3', budget=120, bound='all strings; numeric, boolean, binary, language, duration types: both inclusions',
    funcs=['elementpath/datatypes/*.py:pattern', 'elementpath/datatypes/any_types.py:AnyAtomicType.validate'])
def lexical_spaces(ctx):
    return _lexical(ctx, ['Integer', 'DecimalProxy', 'DoubleProxy', 'Float', 'BooleanProxy', 'HexBinary', 'Language', 'Duration'])


@ob(engine='z3', budget=120, bound='all strings; date/time family: every valid lexical form is accepted',
    funcs=['elementpath/datatypes/datetime.py:pattern'])
def lexical_spaces_datetime(ctx):
    return _lexical(ctx, ['DateTime', 'Date', 'Time', 'GregorianYear', 'GregorianYearMonth', 'GregorianMonthDay', 'GregorianDay',
                          'GregorianMonth'], directions=('valid-accepted',))


@ob(engine='z3', budget=60, kind='witness', finding='C10-datetime-is-valid',
    bound='DateTime.pattern accepts strings outside the xs:dateTime lexical space', funcs=['elementpath/datatypes/datetime.py:DateTime.pattern'])
def known_datetime_is_valid(ctx):
    q = Queries(timeout_s=30, diff_binary=False)
    impl = rx.from_sre(_pattern_text(dt.DateTime))
    ref = rx.from_sre(SPEC['DateTime'][0])
    env = ('cat', [('rep', 0, None, ('set', WS)), ref, ('rep', 0, None, ('set', WS))])
    res, wit, ncls, dts = rx.compare(impl, env, mode='sub')
    q.n += 1
    q.samples.append('DateTime')
    cex = []
    if res == 'sat':
        cex.append(dict(call='replay_is_valid_agrees(%r)' % wit, message='DateTime.is_valid(%r) is True but the constructor rejects it' % wit))
    return q.result(cex)


def replay_is_valid_agrees(s):
    try:
        dt.DateTime.fromstring(s)
        ok = True
    except (ValueError, TypeError, OverflowError):
        ok = False
    return dt.DateTime.is_valid(s) == ok


# ---------------------------------------------------------------------------------------------------
# E2: integer subtype bounds for every integer

XSD_BOUNDS = {
    'NonPositiveInteger': (None, 0), 'NegativeInteger': (None, -1), 'Long': (-2 ** 63, 2 ** 63 - 1), 'Int': (-2 ** 31, 2 ** 31 - 1),
    'Short': (-2 ** 15, 2 ** 15 - 1), 'Byte': (-128, 127), 'NonNegativeInteger': (0, None), 'PositiveInteger': (1, None),
    'UnsignedLong': (0, 2 ** 64 - 1), 'UnsignedInt': (0, 2 ** 32 - 1), 'UnsignedShort': (0, 2 ** 16 - 1), 'UnsignedByte': (0, 255),
    'Integer': (None, None),
}


@ob(engine='z3', budget=60, bound='every integer n x 13 integer types: Integer.__init__ accepts n iff n is within the XSD bounds',
    funcs=[N + ':Integer.__init__', N + ':_lower_bound/_higher_bound'])
def integer_bounds(ctx):
    q = Queries(timeout_s=30)
    n = z3.Int('n')
    cex = []
    for name, (lo, hi) in XSD_BOUNDS.items():
        cls = getattr(dt, name)
        init = cls.__init__
        if getattr(init, '__qualname__', '') != 'Integer.__init__' and name != 'Integer':
            pass   # a subtype overriding __init__ is translated as found
        me = PS.Obj('self', dict(_lower_bound=cls._lower_bound, _higher_bound=cls._higher_bound, __class__=cls), term=n, pytype=int)
        try:
            r = PS.translate(init, [me, n], procedure=True)
        except PS.Unsupported as e:
            return q.result(not_encodable='%s: %s' % (name, e))
        accepted = z3.Not(r['raised'])
        want = z3.And(*([n >= lo] if lo is not None else []) + ([n <= hi] if hi is not None else []) + [True])
        res, m = q.check('%s: accepts(n) != XSD bounds' % name, [accepted != want])
        if res == 'sat':
            cex.append(dict(call='replay_bound(%r, %d)' % (name, mval(m, n)), message='%s: wrong accept/reject for %d' % (name, mval(m, n))))
        q.samples.append('%s bounds %s..%s' % (name, lo, hi))
    return q.result(cex)


def replay_bound(name, n):
    lo, hi = XSD_BOUNDS[name]
    want = (lo is None or n >= lo) and (hi is None or n <= hi)
    try:
        getattr(dt, name)(n)
        got = True
    except ValueError:
        got = False
    return got == want


# ---------------------------------------------------------------------------------------------------
# E1: binary casts and agreement of the construction paths

T = parse_all({'hex2b64': 'xs:hexBinary(xs:base64Binary(xs:hexBinary($s)))', 'hexstr': 'string(xs:hexBinary($s))',
               'castable_int': '$s castable as xs:integer', 'cast_int': '$s cast as xs:integer', 'ctor_int': 'xs:integer($s)',
               'castable_bool': '$s castable as xs:boolean', 'ctor_bool': 'xs:boolean($s)',
               'int_dec_str': 'xs:integer(xs:decimal(xs:string($n))) eq $n'})
HEXCH = '0123456789ABCDEFabcdef'


@ob(budget=60, tbudget=600, kind='hunt', bound='hex string of length <= 4 over [0-9A-Fa-f] (not exhausted in 240 s: bug-hunting)', funcs=['elementpath/datatypes/binary.py:HexBinary', 'Base64Binary',
                                                                           'elementpath/xpath2/_xpath2_constructors.py'])
def hex_base64_roundtrip(s: str) -> bool:
    """
    pre: len(s) in (0, 2, 4) and all(c in '0123456789ABCDEFabcdef' for c in s)
    post: _
    """
    r = ev(T['hex2b64'], s=s)
    return len(r) == 1 and str(r[0]) == s.upper()


@ob(budget=60, bound='string of length <= 3: constructor, cast and castable agree for xs:integer (int() realises: bug-hunting)',
    funcs=['elementpath/xpath2/_xpath2_operators.py:cast/castable', 'elementpath/xpath_tokens/contructors.py'], kind='hunt', tbudget=600)
def integer_paths_agree(s: str) -> bool:
    """
    pre: len(s) <= 3
    post: _
    """
    castable = ev(T['castable_int'], s=s) == [True]
    try:
        a = ev(T['cast_int'], s=s)
    except ElementPathError:
        a = None
    try:
        b = ev(T['ctor_int'], s=s)
    except ElementPathError:
        b = None
    return (a is not None) == castable and (b is not None) == castable and a == b


@ob(budget=60, tbudget=600, kind='hunt', bound='string of length <= 5 without non-XML Unicode white space (known finding C10-unicode-whitespace-digits): constructor and castable agree for xs:boolean and match the lexical space (bug-hunting)',
    funcs=['elementpath/datatypes/proxies.py:BooleanProxy'])
def boolean_paths_agree(s: str) -> bool:
    """
    pre: len(s) <= 5
    pre: all(ch in _XMLWS or not ch.isspace() for ch in s)
    post: _
    """
    castable = ev(T['castable_bool'], s=s) == [True]
    try:
        b = ev(T['ctor_bool'], s=s)
    except ElementPathError:
        b = None
    want = s.strip(' ' + chr(9) + chr(10) + chr(13)) in ('true', 'false', '1', '0')
    return castable == want and (b is not None) == want and (b is None or b == [s.strip(' ' + chr(9) + chr(10) + chr(13)) in ('true', '1')])


@ob(budget=60, tbudget=300, kind='hunt', bound='n integer in [-10^6, 10^6]: integer -> string -> decimal -> integer preserves the value',
    funcs=['elementpath/xpath2/_xpath2_constructors.py'])
def integer_decimal_string_roundtrip(n: int) -> bool:
    """
    pre: -10**6 <= n <= 10**6
    post: _
    """
    return ev(T['int_dec_str'], n=n) == [True]



# --- added after seeded-change review ------------------------------------------------------------------------------------------

import datetime as _dt  # noqa: E402
WSTR = ('', ' ', chr(10), chr(9), ' ' + chr(13) + chr(10), '  ')     # (not WS: that name is the white-space range list of the E3 obligations)
HH = tuple('%02d' % h for h in range(15))
MM = tuple('%02d' % m for m in range(60))
T2 = parse_all({
    'b64_u': 'xs:base64Binary(xs:untypedAtomic($s))', 'b64_s': 'xs:base64Binary($s)', 'b64_c': 'xs:untypedAtomic($s) castable as xs:base64Binary',
    'hex_u': 'xs:hexBinary(xs:untypedAtomic($s))', 'hex_s': 'xs:hexBinary($s)', 'int_u': 'xs:integer(xs:untypedAtomic($s))', 'int_s': 'xs:integer($s)',
    'bool_u': 'xs:boolean(xs:untypedAtomic($s))', 'bool_s': 'xs:boolean($s)', 'date_u': 'xs:date(xs:untypedAtomic($s))', 'date_s': 'xs:date($s)',
    'time_canon': 'string(xs:time($s))', 'time_eq': 'xs:time(string(xs:time($s))) eq xs:time($s)',
})


def _try(tok, **v):
    try:
        return ev(tok, **v)
    except ElementPathError as e:
        return err_code(e)


@ob(budget=300, bound='valid lexical forms of 5 types with whitespace inserted before/inside/after (6 whitespace strings per position, chosen by the solver): xs:T(xs:untypedAtomic(s)) agrees with xs:T(s)',
    funcs=['elementpath/datatypes/binary.py:AbstractBinary.__init__', 'elementpath/datatypes/*.py constructors', 'elementpath/xpath2/_xpath2_constructors.py'])
def untyped_and_string_sources_agree(w0: int, w1: int, w2: int) -> bool:
    """
    pre: 0 <= w0 <= 5 and 0 <= w1 <= 5 and 0 <= w2 <= 5
    post: _
    """
    a, b, c = WSTR[w0], WSTR[w1], WSTR[w2]
    b64 = a + 'aGVsbG8g' + b + 'd29ybGQh' + c
    for ku, ks, s in (('b64_u', 'b64_s', b64), ('hex_u', 'hex_s', a + '0aF1' + c), ('int_u', 'int_s', a + '-12' + c),
                      ('bool_u', 'bool_s', a + 'true' + c), ('date_u', 'date_s', a + '2000-02-29' + c)):
        ru, rs = _try(T2[ku], s=s), _try(T2[ks], s=s)
        if isinstance(ru, str) != isinstance(rs, str):
            return False
        if not isinstance(ru, str) and [str(x) for x in ru] != [str(x) for x in rs]:
            return False
    return _try(T2['b64_c'], s=b64) == [not isinstance(_try(T2['b64_u'], s=b64), str)]


_TZC = '''
@ob(budget=400, bound='xs:time with every timezone designator {sign}hh:mm, hh in {lo:02d}..{hi:02d}: the canonical string is a fixed point and re-parses to an equal value',
    funcs=['elementpath/datatypes/datetime.py:Time.__str__/fromstring', 'elementpath/datatypes/datetime.py:Timezone'])
def canonical_time_fixed_point_{name}(h: int, m: int) -> bool:
    """
    pre: {lo} <= h <= {hi} and 0 <= m <= 59 and (h < 14 or m == 0)
    post: _
    """
    tz = {sign!r} + HH[h] + ':' + MM[m]
    s = '12:30:00' + tz
    canon = ev(T2['time_canon'], s=s)
    want = '12:30:00' + ('Z' if h == 0 and m == 0 else tz)
    return canon == [want] and ev(T2['time_canon'], s=canon[0]) == canon and ev(T2['time_eq'], s=s) == [True]
'''
for _sign in ('+', '-'):
    for _lo, _hi in ((0, 4), (5, 9), (10, 14)):
        define(_TZC.format(sign=_sign, lo=_lo, hi=_hi, name=('minus' if _sign == '-' else 'plus') + '_%02d' % _lo), globals())


# --- added after round-2 seeded changes ---------------------------------------------------------------------------------------------

YEARS = ('2000', '1900', '10000', '10003', '10004', '12000', '10100', '-0001', '0000', '-0004')
from decimal import Decimal as _D  # noqa: E402
T2.update(parse_all({'date_castable': '$s castable as xs:date', 'dt_castable': '$s castable as xs:dateTime', 'date_ctor': 'string(xs:date($s))',
                     'dec_str': 'string($d)', 'dec_rt': 'xs:decimal(string($d)) eq $d', 'dec_castable': 'string($d) castable as xs:decimal'}))


def _leap(y):
    return y % 4 == 0 and (y % 100 != 0 or y % 400 == 0)


@ob(budget=120, bound='lexical forms <year>-02-29 and <year>-02-30 for 10 years incl. 5-digit and year-zero forms (chosen by the solver): castable/constructor agree with the proleptic Gregorian calendar (XSD 1.1 parser)',
    funcs=['elementpath/datatypes/datetime.py:AbstractDateTime.__init__/fromstring', 'castable as'])
def leap_day_lexical(yi: int) -> bool:
    """
    pre: 0 <= yi <= 9
    post: _
    """
    ys = YEARS[yi]
    leap = _leap(int(ys))       # XSD 1.1: 0000 is 1 BCE, -0001 is 2 BCE (astronomical numbering)
    s = ys + '-02-29'
    P11 = PARSER11
    got = P11['date_castable'].evaluate(XPathContext(item=1, variables={'s': s}))
    got2 = P11['dt_castable'].evaluate(XPathContext(item=1, variables={'s': s + 'T00:00:00'}))
    got30 = P11['date_castable'].evaluate(XPathContext(item=1, variables={'s': ys + '-02-30'}))
    return got == leap and got2 == leap and got30 is False


from elementpath.xpath31 import XPath31Parser as _P31  # noqa: E402
_p11 = _P31(xsd_version='1.1')
PARSER11 = {k: _p11.parse(v) for k, v in {'date_castable': '$s castable as xs:date', 'dt_castable': '$s castable as xs:dateTime'}.items()}
SCALES = tuple(_D(10) ** -p for p in range(0, 10))


@ob(budget=60, tbudget=600, kind='hunt', bound='xs:decimal k * 10^-p, k in [-99, 99], p in 0..9 (chosen by the solver): string() is in the xs:decimal lexical space (no exponent) and casts back to an equal value (Decimal: bug-hunting)',
    funcs=['elementpath/xpath_tokens/base.py:XPathToken.string_value', 'elementpath/datatypes/proxies.py:DecimalProxy'])
def decimal_string_roundtrip(k: int, p: int) -> bool:
    """
    pre: -99 <= k <= 99 and 0 <= p <= 9
    post: _
    """
    d = _D(k) * SCALES[p]
    s = ev(T2['dec_str'], d=d)[0]
    return 'E' not in s and 'e' not in s and ev(T2['dec_castable'], d=d) == [True] and ev(T2['dec_rt'], d=d) == [True]


# --- added after round-3 seeded changes: whitespace-collapsed xs:boolean VALUE; negative zero of xs:float / xs:double -------------------

_XMLWS = ' ' + chr(9) + chr(10) + chr(13)
T2.update(parse_all({'bool_ctor': 'xs:boolean($s)', 'bool_cast': '$s cast as xs:boolean', 'bool_untyped': 'xs:untypedAtomic($s) = true()',
                     'bool_castable': '$s castable as xs:boolean',
                     'flt_str': 'string(xs:float($s))', 'flt_div': '1 div xs:float($s)', 'dbl_str': 'string(xs:double($s))', 'dbl_div': '1 div xs:double($s)',
                     'dbl_flt': 'string(xs:double($s) cast as xs:float)', 'flt_dbl': '1 div (xs:float($s) cast as xs:double)'}))
BWORDS = ('true', 'false', '1', '0')
ZEROS = ('-0', '-0.0', '-0e0', '-.0E5', '-0.000E-3', '0', '+0', '0.0', '-1e-50', '1e-50')


@ob(budget=200, bound='lexical form = pad + {true,false,1,0} + pad with pads from 6 XML-whitespace strings (all chosen by the solver): constructor, '
                      'cast, castable and untypedAtomic comparison give the value of the collapsed word',
    funcs=['elementpath/datatypes/proxies.py:BooleanProxy.__new__', 'elementpath/xpath2/_xpath2_constructors.py:xs:boolean'])
def boolean_whitespace_value(w0: int, w2: int, wi: int) -> bool:
    """
    pre: 0 <= w0 <= 5 and 0 <= w2 <= 5 and 0 <= wi <= 3
    post: _
    """
    word = BWORDS[[k for k in range(4) if k == wi][0]]
    s = WSTR[w0] + word + WSTR[w2]
    want = word in ('true', '1')
    return _try(T2['bool_ctor'], s=s) == [want] and _try(T2['bool_cast'], s=s) == [want] and _try(T2['bool_untyped'], s=s) == [want] \
        and _try(T2['bool_castable'], s=s) == [True]


@ob(budget=120, bound='10 lexical forms of positive / negative zero and of values that underflow xs:float (index chosen by the solver): the sign of '
                      'zero is kept by xs:float and xs:double (canonical string, 1 div x) and by casts between them',
    funcs=['elementpath/datatypes/numeric.py:Float.__new__', 'elementpath/xpath2/_xpath2_constructors.py:xs:float/xs:double'])
def float_zero_sign(zi: int) -> bool:
    """
    pre: 0 <= zi <= 9
    post: _
    """
    s = ZEROS[[k for k in range(10) if k == zi][0]]
    neg = s.startswith('-')
    underflow = 'e-50' in s
    zs, inf = ('-0' if neg else '0'), [float('-inf') if neg else float('inf')]
    if _try(T2['flt_str'], s=s) != [zs] or _try(T2['flt_div'], s=s) != inf or _try(T2['flt_dbl'], s=s) != inf or _try(T2['dbl_flt'], s=s) != [zs]:
        return False
    if underflow:
        return True
    return _try(T2['dbl_str'], s=s) == [zs] and _try(T2['dbl_div'], s=s) == inf


# recorded finding: the constructors trim with str.strip() and convert with int()/float()/Decimal(), which accept every Unicode white space
# character and every Unicode decimal digit; the XSD lexical spaces admit only #x20 #x9 #xA #xD and [0-9]
T2.update(parse_all({'kf_bool': 'xs:boolean($s)', 'kf_int': 'xs:integer($s)', 'kf_date': '$s castable as xs:date'}))


@ob(budget=60, kind='witness', finding='C10-unicode-whitespace-digits', bound="the strings U+205F '0', ARABIC-INDIC '12' and U+2005 '2000-01-01'",
    funcs=['elementpath/datatypes/proxies.py:BooleanProxy.__new__', 'elementpath/datatypes/numeric.py:Integer', 'elementpath/datatypes/datetime.py:fromstring'])
def known_unicode_whitespace_digits(k: int) -> bool:
    """
    pre: k == 1
    post: _
    """
    return _try(T2['kf_bool'], s=chr(0x205f) + '0') == 'FORG0001' and _try(T2['kf_int'], s=chr(0x661) + chr(0x662)) == 'FORG0001' \
        and _try(T2['kf_date'], s=chr(0x2005) + '2000-01-01') == [False]


# --- added after round-4 seeded changes: casts between date/time types keep the components they share; xs:long bounds -------------------

T2.update(parse_all({
    'dt2time': 'string(xs:time(xs:dateTime($s)))', 'dt2date': 'string(xs:date(xs:dateTime($s)))', 'dt2time_cast': 'string(xs:dateTime($s) cast as xs:time)',
    'secs': 'seconds-from-time(xs:time(xs:dateTime($s))) = seconds-from-dateTime(xs:dateTime($s))',
    'date2dt': 'string(xs:dateTime(xs:date($d)))', 'dt2gy': 'string(xs:gYear(xs:dateTime($s)))', 'dt2gmd': 'string(xs:gMonthDay(xs:dateTime($s)))'}))
DT_LEX = ('2000-01-01T12:30:15.25Z', '1999-12-31T23:59:59.999999-05:00', '2024-02-29T00:00:00', '0001-01-01T00:00:00.5+14:00', '2000-06-15T24:00:00')


@ob(budget=120, bound='5 xs:dateTime lexical forms (fractional seconds, timezones, 24:00:00; index chosen by the solver) cast to xs:time, xs:date, '
                      'xs:gYear, xs:gMonthDay by constructor and cast as: the target keeps exactly the shared components and the timezone',
    funcs=['elementpath/datatypes/datetime.py:Time.make/Date.make/GregorianYear.make', 'elementpath/xpath2/_xpath2_constructors.py'])
def datetime_casts_keep_components(i: int) -> bool:
    """
    pre: 0 <= i <= 4
    post: _
    """
    s = DT_LEX[[k for k in range(5) if k == i][0]]
    date, rest = s.split('T')
    tz = ''
    for mark in ('Z', '+', '-'):
        if mark in rest:
            tz = rest[rest.index(mark):]
            rest = rest[:rest.index(mark)]
            break
    if rest == '24:00:00':
        return _try(T2['dt2time'], s=s) == ['00:00:00' + tz] and _try(T2['dt2date'], s=s) == ['2000-06-16' + tz]
    return _try(T2['dt2time'], s=s) == [rest + tz] and _try(T2['dt2time_cast'], s=s) == [rest + tz] and _try(T2['dt2date'], s=s) == [date + tz] \
        and _try(T2['secs'], s=s) == [True] and _try(T2['dt2gy'], s=s) == [date[:4] + tz] and _try(T2['dt2gmd'], s=s) == ['-' + date[4:] + tz]


# --- added after a defect reported during round 4: the string form of an xs:double denotes the same double -----------------------------------

T2.update(parse_all({'dbl_rt': '(number(string($x)) = $x, xs:double(string($x)) eq $x, number(concat($x, "")) = $x, xs:double(xs:untypedAtomic($x)) eq $x, string($x))'}))
DBLS = (1.5e20, 1e20, 1.5e-20, 1e-7, 2.5e100, 1.25e300, 100.0, 1200.0, 1e21, 0.1, 123456789.0, 5e-324, 1.7976931348623157e308, 1e16, 1.0000000000000002)


@ob(budget=120, bound='15 doubles with exponents ending in 0, large and small magnitudes (index and sign chosen by the solver): string(), concat() and '
                      'xs:untypedAtomic() give a text that converts back to the same double, without "+" and with E upper case',
    funcs=['elementpath/xpath_tokens/base.py:XPathToken.string_value', 'elementpath/datatypes/untyped.py:UntypedAtomic.__init__'])
def double_string_denotes_same_double(i: int, neg: bool) -> bool:
    """
    pre: 0 <= i <= 14
    post: _
    """
    x = DBLS[[k for k in range(15) if k == i][0]]
    if neg:
        x = -x
    r = _try(T2['dbl_rt'], x=x)
    return isinstance(r, list) and r[:4] == [True, True, True, True] and '+' not in r[4] and 'e' not in r[4] and float(r[4]) == x
