"""C01 — path expressions select exactly the XDM-defined nodes, once, in document order (DESIGN §4 C01)."""
import itertools
import random
import os
from harness.common import ob, define, P1, P2, P30, P31, XPathContext, ElementPathError, pyet, PLAIN

INFO = dict(
    level='other',
    explanation='Bounded symbolic execution (CrossHair + z3): for every (tree shape, expression template) pair of an enumerated '
                'family, the tags of all elements are solver variables over the alphabet {a, b, c} (the two names a template uses plus '
                '"any other name"), the positional predicate $n is an unbounded integer; the real parsers (1.0 and 3.1 in the quick '
                'tier, all four in thorough) evaluate the template on a pure-Python ElementTree document and the result must be a list '
                'of distinct nodes, in document order, equal to the set computed by a reference evaluator that implements the XDM axis '
                'definitions over the parent array of the shape. The tree must be unchanged afterwards.',
    assumptions=['shapes: ordered trees with <= 4 elements (quick) / <= 5 (thorough), plus one comment and one text node',
                 'templates: 13 axes x {a, *, node()} in one- and two-step paths, positional / last() predicates, parenthesised paths',
                 'three-letter alphabet suffices because name tests only compare expanded names for equality (read off match_name)',
                 'lxml trees and libxml2 agreement only on replay of counterexamples; namespaced names in a separate small family'])
ET = pyet()

# ---------------------------------------------------------------------------------------------------
# shapes: parent arrays of ordered trees in preorder; node k>0 has parent P[k] < k


def shapes(n):
    out = []

    def rec(parents, stack):
        if len(parents) == n:
            out.append(tuple(parents))
            return
        # the next preorder node may attach to any node on the rightmost path
        for depth in range(len(stack), 0, -1):
            p = stack[depth - 1]
            rec(parents + [p], stack[:depth] + [len(parents)])
    rec([-1], [0])
    return out


def children(P, i):
    return [j for j in range(len(P)) if P[j] == i]


def descendants(P, i):
    out = []
    for j in range(i + 1, len(P)):
        k = P[j]
        while k != -1:
            if k == i:
                out.append(j)
                break
            k = P[k]
    return out


def ancestors(P, i):
    out = []
    k = P[i]
    while k != -1:
        out.append(k)
        k = P[k]
    return out      # nearest first


# ---------------------------------------------------------------------------------------------------
# reference model.  Nodes: ints 0..n-1 = elements in preorder; 'C' = a comment appended as last child of element 0;
# 'T' = a text node = tail of element 1 (when present).  Document order key below.


class Model:
    def __init__(self, P, tags, with_comment, with_text, keyed=()):
        self.P, self.tags, self.n = P, tags, len(P)
        self.keyed = set(keyed)      # elements carrying the attribute k
        self.extra = []
        if with_text and self.n > 1:
            self.extra.append('T')
        if with_comment:
            self.extra.append('C')

    def parent(self, x):
        if x == 'C':
            return 0
        if x == 'T':
            return self.P[1]
        return self.P[x] if self.P[x] >= 0 else 'D'

    def order(self, x):
        """document order key"""
        if x == 'D':
            return (-1, 0)
        if x == 'C':
            return (self.n, 1)       # last child of the root element: after every element
        if x == 'T':
            last = max([1] + descendants(self.P, 1))
            return (last, 1)         # right after the subtree of element 1
        return (x, 0)

    def kids(self, x):
        if x == 'D':
            return [0]
        if not isinstance(x, int):
            return []
        out = []
        for c in children(self.P, x):
            out.append(c)
            if c == 1 and 'T' in self.extra:
                out.append('T')
        if x == 0 and 'C' in self.extra:
            out.append('C')
        return out

    def desc(self, x):
        out = []
        for k in self.kids(x):
            out.append(k)
            out.extend(self.desc(k))
        return out

    def anc(self, x):
        out = []
        p = self.parent(x) if x != 'D' else None
        while p is not None:
            out.append(p)
            p = self.parent(p) if p != 'D' else None
        return out

    def all_nodes(self):
        return ['D'] + self.desc('D')

    def axis(self, name, x):
        """nodes on the axis, in AXIS order (reverse axes: nearest first)"""
        if name == 'self':
            return [x]
        if name == 'child':
            return self.kids(x)
        if name == 'descendant':
            return self.desc(x)
        if name == 'descendant-or-self':
            return [x] + self.desc(x)
        if name == 'parent':
            return [] if x == 'D' else [self.parent(x)]
        if name == 'ancestor':
            return self.anc(x)
        if name == 'ancestor-or-self':
            return [x] + self.anc(x)
        if name in ('following-sibling', 'preceding-sibling'):
            if x == 'D':
                return []
            sibs = self.kids(self.parent(x))
            i = sibs.index(x)
            return sibs[i + 1:] if name == 'following-sibling' else sibs[:i][::-1]
        if name == 'following':
            if x == 'D':
                return []
            excl = set([x] + self.desc(x) + self.anc(x))
            return [y for y in self.all_nodes() if y not in excl and self.order(y) > self.order(x)]
        if name == 'preceding':
            if x == 'D':
                return []
            excl = set([x] + self.desc(x) + self.anc(x))
            return [y for y in self.all_nodes() if y not in excl and self.order(y) < self.order(x)][::-1]
        if name == 'attribute':
            return []
        raise ValueError(name)

    def test(self, t, x, principal_element=True):
        if t == 'node()':
            return True
        if t == '*':
            return isinstance(x, int)
        if t == 'text()':
            return x == 'T'
        if t == 'comment()':
            return x == 'C'
        return isinstance(x, int) and self.tags[x] == t

    def step(self, ctx_nodes, axis, test, pred=None, n=None):
        """one step from a list of context nodes: union over context nodes of (axis::test)[pred], as a set"""
        out = set()
        for x in ctx_nodes:
            cand = [y for y in self.axis(axis, x) if self.test(test, y)]
            if pred == 'pos':
                cand = [y for k, y in enumerate(cand, 1) if k == n]
            elif pred == 'position()':
                cand = list(cand)          # [position()] is true for every item
            elif pred == 'haskey':
                cand = [y for y in cand if y in self.keyed]
            elif pred == 'last':
                cand = cand[-1:]
            out.update(cand)
        return out

    def sort(self, nodes):
        return sorted(nodes, key=self.order)


# ---------------------------------------------------------------------------------------------------
# templates: (xpath text with $n for the positional predicate, evaluator over the model)

AXES = ['child', 'descendant', 'descendant-or-self', 'parent', 'ancestor', 'ancestor-or-self', 'following-sibling',
        'preceding-sibling', 'following', 'preceding', 'self']


def templates():
    out = []
    for ax in AXES:
        for t2 in ('b', '*', 'node()'):
            out.append(('//a/%s::%s' % (ax, t2), [('desc-or-self-root', 'a'), (ax, t2, None)]))
        out.append(('//a/%s::b[$n]' % ax, [('desc-or-self-root', 'a'), (ax, 'b', 'pos')]))
        out.append(('//a/%s::*[last()]' % ax, [('desc-or-self-root', 'a'), (ax, '*', 'last')]))
        out.append(('//b/%s::*[$n]/a' % ax, [('desc-or-self-root', 'b'), (ax, '*', 'pos'), ('child', 'a', None)]))
    out.append(('//a/b', [('desc-or-self-root', 'a'), ('child', 'b', None)]))
    out.append(('//a//b', [('desc-or-self-root', 'a'), ('descendant', 'b', None)]))
    # added after round-3 seeded changes: name steps from nested context nodes; descendant-or-self from leaf context nodes
    out.append(('//*/b', [('desc-or-self-root', '*'), ('child', 'b', None)]))
    out.append(('//text()/descendant-or-self::node()', [('desc-or-self-root', 'text()'), ('descendant-or-self', 'node()', None)]))
    out.append(('//comment()/descendant-or-self::node()', [('desc-or-self-root', 'comment()'), ('descendant-or-self', 'node()', None)]))
    out.append(('//a/node()/descendant-or-self::text()', [('desc-or-self-root', 'a'), ('child', 'node()', None), ('descendant-or-self', 'text()', None)]))
    out.append(('//a/..', [('desc-or-self-root', 'a'), ('parent', 'node()', None)]))
    out.append(('//*[$n]', [('desc-or-self-root', '*', 'childpos')]))
    out.append(('(//a)[$n]', [('desc-or-self-root', 'a'), ('global-pos',)]))
    out.append(('(//a)[$n]/..', [('desc-or-self-root', 'a'), ('global-pos',), ('parent', 'node()', None)]))
    out.append(('(//a/ancestor::*)[last()]', [('desc-or-self-root', 'a'), ('ancestor', '*', None), ('global-last',)]))
    out.append(('/*/a/following::node()', [('root-child', '*'), ('child', 'a', None), ('following', 'node()', None)]))
    out.append(('//a/text()', [('desc-or-self-root', 'a'), ('child', 'text()', None)]))
    out.append(('//comment()/preceding::*', [('desc-or-self-root', 'comment()'), ('preceding', '*', None)]))
    out.append(('//text()/following-sibling::node()', [('desc-or-self-root', 'text()'), ('following-sibling', 'node()', None)]))
    out.append(('//a/*[position()]', [('desc-or-self-root', 'a'), ('child', '*', 'position()')]))
    out.append(('(//b)[position()]', [('desc-or-self-root', 'b')]))
    out.append(('//a/preceding-sibling::*[position()]', [('desc-or-self-root', 'a'), ('preceding-sibling', '*', 'position()')]))
    out.append(('//*[@k]/following::node()', [('desc-or-self-root', '*', 'haskey'), ('following', 'node()', None)]))
    out.append(('//b[@k]/a/preceding::node()', [('desc-or-self-root', 'b', 'haskey'), ('child', 'a', None), ('preceding', 'node()', None)]))
    out.append(('//*[@k]/preceding::*', [('desc-or-self-root', '*', 'haskey'), ('preceding', '*', None)]))
    out.append(('//*[@k]/following::a/preceding::node()', [('desc-or-self-root', '*', 'haskey'), ('following', 'a', None), ('preceding', 'node()', None)]))
    out.append(('//@k/..', [('desc-or-self-root', '*', 'haskey')]))
    out.append(('//a[@k]/ancestor-or-self::*[@k]', [('desc-or-self-root', 'a', 'haskey'), ('ancestor-or-self', '*', 'haskey')]))
    out.append(('/a/b | //b/a', [('union', [[('root-child', 'a'), ('child', 'b', None)], [('desc-or-self-root', 'b'), ('child', 'a', None)]])]))
    return out


def model_eval(M, prog, n):
    cur = None
    for st in prog:
        if st[0] == 'desc-or-self-root':
            # //X  = /descendant-or-self::node()/child::X  (with an optional child-position predicate)
            base = ['D'] + M.desc('D')
            if len(st) == 3 and st[2] == 'childpos':
                cur = M.step(base, 'child', st[1], 'pos', n)
            elif len(st) == 3 and st[2] == 'haskey':
                cur = M.step(base, 'child', st[1], 'haskey')
            else:
                cur = M.step(base, 'child', st[1])
        elif st[0] == 'root-child':
            cur = M.step(['D'], 'child', st[1])
        elif st[0] == 'global-pos':
            s = M.sort(cur)
            cur = set(s[n - 1:n]) if n >= 1 else set()
        elif st[0] == 'global-last':
            s = M.sort(cur)
            cur = set(s[-1:])
        elif st[0] == 'union':
            cur = set()
            for sub in st[1]:
                cur |= set(model_eval(M, sub, n))
        else:
            ax, t, pred = st
            cur = M.step(M.sort(cur), ax, t, pred, n)
    return M.sort(cur)


# ---------------------------------------------------------------------------------------------------
# real trees

def build(P, tags, with_comment, with_text, keyed=()):
    els = [ET.Element(t) for t in tags]
    for i in keyed:
        els[i].set('k', 'v')
    for i, p in enumerate(P):
        if p >= 0:
            els[p].append(els[i])
    c = None
    if with_text and len(P) > 1:
        els[1].tail = 'x'
    if with_comment:
        c = ET.Comment('c')
        els[0].append(c)
    return els, c


def ident(res, els, c, doc):
    out = []
    for r in res:
        e = getattr(r, 'elem', None)
        if e is None:
            v = getattr(r, 'value', r)
            out.append('T' if v == 'x' else ('D' if v is doc else '?'))
            continue
        hit = [i for i in range(len(els)) if els[i] is e]
        out.append(hit[0] if hit else ('C' if e is c else '?'))
    return out


def snapshot(els):
    return [(e.tag, dict(e.attrib), e.text, e.tail, [id(k) for k in e]) for e in els]


PARSED = {}


def tokens(expr, tier):
    key = (expr, tier)
    if key not in PARSED:
        ps = (P1, P31) if tier == 'quick' else (P1, P2, P30, P31)
        # XPath 1.0 has no variables bound through the context in the same way for predicates: $n works in all versions
        PARSED[key] = [p.parse(expr) for p in ps]
    return PARSED[key]


def run_case(P, expr, prog, tags, n, with_comment, with_text, tier='quick', k1=False, k3=False):
    keyed = [i for i, f in ((1, k1), (len(P) - 1, k3)) if f and i < len(P)]
    els, c = build(P, tags, with_comment, with_text, keyed)
    doc = ET.ElementTree(els[0])
    before = snapshot(els)
    M = Model(P, tags, with_comment, with_text, keyed)
    want = model_eval(M, prog, n)
    for tok in tokens(expr, tier):
        r = tok.evaluate(XPathContext(doc, variables={'n': n}))
        got = ident(r if isinstance(r, list) else [r], els, c, doc)
        if got != want:
            return False
    return snapshot(els) == before


TIER = os.environ.get('VERIF_TIER', 'quick')
SEED = int(os.environ.get('VERIF_SEED', '0') or 0)
ALL_T = templates()
SHAPES = {k: shapes(k) for k in (3, 4, 5)}


def family():
    """the (shape, template, mixed-content mode) triples of this run.
    quick:    every template on one 4-element shape (rotating) + a seed-chosen extra shape for a sixth of them; comment and text present.
    thorough: every template on ALL 5 four-element shapes (comment and text present) + on one 4-element shape with comment/text
              presence symbolic + on one seed-rotated 5-element shape; all four parsers."""
    pairs = []
    rnd = random.Random(SEED)
    sh = SHAPES[4]
    if TIER == 'quick':
        for k, (expr, prog) in enumerate(ALL_T):
            pairs.append((sh[k % len(sh)], expr, 'present'))
            if k % 6 == SEED % 6:
                pairs.append((rnd.choice(sh), expr, 'present'))
            if expr in ('//a/b', '//*/b', '//a/child::*', '//a/text()'):
                # context nodes nested in each other with a matching child AFTER the inner one: r(x(y), z)
                pairs.append(((-1, 0, 1, 0), expr, 'present'))
    else:
        for k, (expr, prog) in enumerate(ALL_T):
            for P in sh:
                pairs.append((P, expr, 'present'))
            pairs.append((sh[(k + 2) % len(sh)], expr, 'symbolic'))
            pairs.append((SHAPES[5][(k + SEED) % len(SHAPES[5])], expr, 'present'))
    return list(dict.fromkeys(pairs)), dict(ALL_T)


_SRC = '''
@ob(budget={budget}, family='shape-template', bound={bound!r},
    funcs=['elementpath/xpath_context.py:iter_* axes', 'elementpath/xpath1/_xpath1_operators.py:select__child_path/descendant_path/predicate',
           'elementpath/xpath1/_xpath1_axes.py', 'elementpath/tree_builders.py:build_node_tree'])
def case_{k}({targs}, n: int{extra_args}) -> bool:
    """
    pre: all(len(t) == 1 and 'a' <= t <= 'c' for t in ({tnames},))
    post: _
    """
    return run_case({P}, {expr!r}, PROGS[{expr!r}], [{tnames}], n, {wc}, {wt}, TIER{kargs})
'''
_pairs, PROGS = family()
for _k, (_P, _expr, _mode) in enumerate(_pairs):
    _names = ['t%d' % i for i in range(len(_P))]
    _sym = _mode == 'symbolic'
    _keyed = '@k' in _expr
    define(_SRC.format(budget=(260 if _keyed else 160) if TIER == 'quick' else (300 if _keyed else (120 if not _sym else 80)), P=tuple(_P), expr=_expr, k=_k,
                       bound='shape %s (comment and text node %s), template %s: every labelling over {a,b,c}, $n any integer' % (
                           tuple(_P), _mode, _expr), targs=', '.join('%s: str' % x for x in _names),
                       tnames=', '.join(_names), extra_args=(', wc: bool, wt: bool' if _sym else '') + (', k1: bool, k3: bool' if _keyed else ''),
                       kargs=', k1, k3' if _keyed else '',
                       wc='wc' if _sym else 'True', wt='wt' if _sym else 'True'), globals())


# --- added after round-4 seeded changes: axes from the children of the document node in REAL lxml documents, against libxml2 itself -----------

try:
    import lxml.etree as _LX1
except ImportError:      # pragma: no cover
    _LX1 = None
from harness.common import P1 as _P1, P31 as _P31x, XPathContext as _Ctx1, L as _L1  # noqa: E402
DOC_EXPRS = ('/r/following-sibling::node()', '/r/preceding-sibling::node()', '/comment()[1]/following-sibling::*', '/node()[last()]/preceding-sibling::node()',
             '/node()', '/comment()', '/processing-instruction()', '/r/following::node()', '/r/preceding::node()', '//comment()/following-sibling::node()',
             '/*/preceding-sibling::comment()[1]', '//x/ancestor::*', '/r/x/following::node()', '//node()[not(parent::*)]',
             '//text()/following::node()', '//comment()/following::*', '//processing-instruction()/following::node()', '/comment()/following::node()')
TOK_DOC = {v: [p.parse(e) for e in DOC_EXPRS] for v, p in (('1', _P1), ('31', _P31x))}


@ob(budget=300, bound='lxml document with 0..2 comments and 0..1 PI before the root element and 0..2 nodes (comment, PI) after it (counts chosen by the '
                      'solver; the lxml trees are concrete on each path): 18 paths that start from or pass through the children of the document '
                      'node select, with the XPath 1.0 and 3.1 parsers, the same nodes in the same order as libxml2 (lxml xpath())',
    funcs=['elementpath/xpath_context.py:iter_siblings/iter_followings/iter_preceding', 'elementpath/tree_builders.py:build_lxml_node_tree'])
def lxml_document_children_axes(nb: int, pb: int, na: int) -> bool:
    """
    pre: 0 <= nb <= 2 and 0 <= pb <= 1 and 0 <= na <= 2
    post: _
    """
    if _LX1 is None:
        return True
    nb = 0 if nb == 0 else 1 if nb == 1 else 2
    pb = 1 if pb == 1 else 0
    na = 0 if na == 0 else 1 if na == 1 else 2
    text = '<!--b-->' * nb + '<?p q?>' * pb + '<r>h<x>t</x><!--i--></r>' + ('<!--a-->' if na > 0 else '') + ('<?s z?>' if na > 1 else '')
    doc = _LX1.fromstring(text).getroottree()
    for k, e in enumerate(DOC_EXPRS):
        want = doc.xpath(e)
        for v in ('1', '31'):
            got = _L1(TOK_DOC[v][k].evaluate(_Ctx1(doc)))
            if len(got) != len(want):
                return False
            for g, w in zip(got, want):
                gv = getattr(g, 'value', g)
                if isinstance(w, str):
                    if gv != w:                       # text nodes: libxml2 returns "smart strings"
                        return False
                elif gv is not w:
                    return False
    return True


@ob(budget=60, kind='witness', finding='C01-following-from-attribute', bound="//x/@k/following::x on <r><x k='1'/><x/></r>",
    funcs=['elementpath/xpath_context.py:XPathContext.iter_followings'])
def known_following_from_attribute(k: int) -> bool:
    """
    pre: k == 1
    post: _
    """
    r = ET.XML('<r><x k="1"/><x/></r>')
    got = _L1(_P31x.parse('//x/@k/following::x').evaluate(_Ctx1(ET.ElementTree(r))))
    return len(got) == 1
