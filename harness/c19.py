"""C19 — evaluation preserves process-global state: locale, locks, environment (threads and entities out)."""
import locale
import os
from harness.common import ob, define, parse_all, ev, L, P2, P31, XPathContext, ElementPathError, err_code
import elementpath.collations as coll

C = 'elementpath/collations.py'
INFO = dict(
    level='other',
    explanation='Bounded symbolic execution (CrossHair + z3) with the installed-locale configuration as a solver variable: the locale '
                'module used by elementpath.collations is replaced by a stub whose setlocale(name) succeeds iff a solver-chosen '
                'predicate over the requested names holds (C/POSIX always supported) and which tracks LC_COLLATE. For every collation '
                'URI of an enumerated set x functions taking a collation x histories of two evaluations: afterwards (returned or '
                'raised) the collation lock is free, LC_COLLATE is the initial one, any exception is an ElementPathError, and the '
                'second evaluation does not depend on the first. environment-variable / available-environment-variables are empty '
                'for every symbolic name with allow_environment off, and os.environ / decimal context are unchanged.',
    assumptions=['stub locale module: setlocale/getlocale/strcoll/strxfrm with the documented contract; the real C library is not run',
                 'thread interleavings (CrossHair is single-threaded) and entity expansion in parse-xml (expat) are outside the claim'])
URIS = ['http://www.w3.org/2005/xpath-functions/collation/codepoint',
        'http://www.w3.org/2005/xpath-functions/collation/html-ascii-case-insensitive',
        'http://www.w3.org/2013/collation/UCA?lang=de;fallback=yes', 'http://www.w3.org/2013/collation/UCA?lang=de;fallback=no',
        'http://www.w3.org/2013/collation/UCA?lang=it_IT.UTF-8', 'http://www.w3.org/2013/collation/UCA', 'it_IT.UTF-8', 'nonsense',
        'http://www.w3.org/2013/collation/UCA?lang=en.US.UTF-8;fallback=no', 'http://www.w3.org/2013/collation/UCA?fallback=maybe']
EXPRS = {'compare': 'compare($a, $b, $c)', 'contains': 'contains($a, $b, $c)', 'index-of': 'index-of(($a, $b), $b, $c)',
         'distinct': 'distinct-values(($a, $b), $c)', 'sort': 'sort(($b, $a), $c)', 'deep-equal': 'deep-equal($a, $b, $c)',
         'starts': 'starts-with($a, $b, $c)', 'max': 'max(($a, $b), $c)'}
TOK = {k: P31.parse(v) for k, v in EXPRS.items()}
T_ENV = parse_all({'env': 'environment-variable($n)', 'all': 'available-environment-variables()'})


class FakeLocale:
    """stand-in for the `locale` module inside elementpath.collations: which locales are installed is decided by the solver"""
    LC_COLLATE = locale.LC_COLLATE
    LC_ALL = locale.LC_ALL
    Error = locale.Error

    def __init__(self, de, en_us, it, other, initial=(None, None)):
        self.ok = dict(de=de, en_US=en_us, it_IT=it)
        self.other = other
        if initial[0] in self.ok:
            self.ok[initial[0]] = True        # the locale the process is already in is necessarily installed
        self.initial = initial
        self.cur = initial
        self.calls = 0

    def _supported(self, value):
        if value in ((None, None), 'C', 'POSIX', '', ('C', None)):
            return True
        name = value if isinstance(value, str) else value[0]
        if not isinstance(name, str):
            raise TypeError('locale name')
        if name == self.initial[0]:
            return True                       # the locale the process is already in is necessarily installed
        for k, v in self.ok.items():
            if name.startswith(k):
                return v
        return self.other

    def getlocale(self, cat=None):
        return self.cur

    def setlocale(self, cat, value=None):
        if value is None:
            return self.cur
        self.calls += 1
        if isinstance(value, tuple) and len(value) != 2:
            raise TypeError('Locale must be None, a string, or an iterable of two strings -- language code, encoding.')
        if not self._supported(value):
            raise locale.Error('unsupported locale setting')
        if value in ((None, None), 'C'):
            self.cur = (None, None)
        elif isinstance(value, tuple):
            self.cur = value
        elif '.' in value:
            self.cur = tuple(value.split('.', 1))      # getlocale() reports (language, encoding)
        else:
            self.cur = (value, 'UTF-8')
        return value

    def strcoll(self, a, b):
        return (a > b) - (a < b)

    def strxfrm(self, a):
        return a


def _history(key1, uri1, key2, uri2, de, en_us, it, other, initial=(None, None)):
    fake = FakeLocale(de, en_us, it, other, initial)
    saved = coll.locale
    coll.locale = fake
    env_before = dict(os.environ)
    try:
        outs = []
        for key, uri in ((key1, uri1), (key2, uri2)):
            try:
                outs.append(L(TOK[key].evaluate(XPathContext(item=1, variables={'a': 'x', 'b': 'y', 'c': uri}))))
            except ElementPathError as e:
                outs.append(err_code(e))
            if coll._locale_collate_lock.locked() or fake.cur != initial:
                return False
        # the second evaluation alone, on a fresh stub with the same configuration, gives the same answer
        fake2 = FakeLocale(de, en_us, it, other, initial)
        coll.locale = fake2
        try:
            alone = L(TOK[key2].evaluate(XPathContext(item=1, variables={'a': 'x', 'b': 'y', 'c': uri2})))
        except ElementPathError as e:
            alone = err_code(e)
        return alone == outs[1] and dict(os.environ) == env_before
    finally:
        coll.locale = saved
        if coll._locale_collate_lock.locked():
            coll._locale_collate_lock.release()


_SRC = '''
@ob(budget=90, tier={tier!r}, family='collation-history', bound={bound!r},
    funcs=[C + ':CollationManager.__enter__/__exit__', C + ':_locale_collate_lock', 'collation-taking functions'])
def history_{n}(de: bool, en_us: bool, it: bool, other: bool) -> bool:
    """
    post: _
    """
    return _history({k1!r}, {u1!r}, {k2!r}, {u2!r}, de, en_us, it, other)
'''
_keys = sorted(EXPRS)
_n = 0
for _i, _u1 in enumerate(URIS):
    for _j, _u2 in enumerate(URIS):
        _n += 1
        _k1, _k2 = _keys[(_i + _j) % len(_keys)], _keys[(_i * 3 + _j + 1) % len(_keys)]
        define(_SRC.format(n='%03d' % _n, k1=_k1, u1=_u1, k2=_k2, u2=_u2,
                           bound='history [%s with %s; %s with %s] under every installed-locale configuration (de, en_US, it_IT, any other: 16 cases chosen by the solver)' % (_k1, _u1, _k2, _u2), tier='quick' if (_n % 4 == 1 or _i == _j) else 'thorough'), globals())


@ob(budget=120, bound='variable name: any string of length <= 3; allow_environment left at its default (off)', funcs=['elementpath/xpath30/_xpath30_functions.py:environment-variable', 'available-environment-variables'])
def environment_hidden(n: str) -> bool:
    """
    pre: len(n) <= 3
    post: _
    """
    before = dict(os.environ)
    return ev(T_ENV['env'], n=n) == [] and ev(T_ENV['all']) == [] and ev(T_ENV['env'], n='PATH') == [] and dict(os.environ) == before


# --- added after seeded-change review: DOCTYPE/entity rejection in fn:parse-xml / parse-xml-fragment (bug-hunting: expat is C code) ---

PREFIXES = ('', ' ', chr(10), '<!-- c -->', '<?p q?>', '<?xml version="1.0"?>', '<?xml version="1.0"?><!-- c -->', '<!-- a --><?p q?> ')
T_XML = parse_all({'frag': 'parse-xml-fragment($t)', 'doc': 'parse-xml($t)'})


@ob(budget=60, tbudget=300, kind='hunt', bound='XML text = prefix (8 prolog variants chosen by the solver) + DOCTYPE declaring an internal entity + element using it: parse-xml and parse-xml-fragment must raise, never expand (expat is C code: bug-hunting only)',
    funcs=['elementpath/xpath30/_xpath30_functions.py:parse-xml/parse-xml-fragment', 'elementpath/etree.py:defuse_xml'])
def entities_rejected(pi: int, frag: bool) -> bool:
    """
    pre: 0 <= pi <= 7
    post: _
    """
    text = PREFIXES[pi] + '<!DOCTYPE d [<!ENTITY e "boom">]><d>&e;</d>'
    try:
        r = T_XML['frag' if frag else 'doc'].evaluate(XPathContext(item=1, variables={'t': text}))
    except ElementPathError:
        return True
    return False


# --- added after round-2 seeded changes: the process locale may already be the one a collation asks for -------------------------------

INITIALS = ((None, None), ('it_IT', 'UTF-8'), ('de', 'UTF-8'), ('C', 'UTF-8'), ('en_US', 'UTF-8'))
_SRC_I = '''
@ob(budget=90, family='collation-history-initial', bound={bound!r},
    funcs=[C + ':CollationManager.__enter__/__exit__', C + ':_locale_collate_lock'])
def history_initial_{n}(de: bool, en_us: bool, it: bool, other: bool, ii: int) -> bool:
    """
    pre: 0 <= ii <= 4
    post: _
    """
    return _history({k1!r}, {u1!r}, {k2!r}, {u2!r}, de, en_us, it, other, INITIALS[ii])
'''
for _n, (_u1, _u2) in enumerate((('it_IT.UTF-8', 'it_IT.UTF-8'), ('http://www.w3.org/2013/collation/UCA?lang=de;fallback=no', 'it_IT.UTF-8'),
                                 ('http://www.w3.org/2013/collation/UCA?lang=it_IT.UTF-8', 'http://www.w3.org/2013/collation/UCA?lang=de;fallback=yes'),
                                 ('http://www.w3.org/2013/collation/UCA?lang=C', 'http://www.w3.org/2013/collation/UCA?lang=C'))):
    define(_SRC_I.format(n=_n, k1='compare', u1=_u1, k2='contains', u2=_u2,
                         bound='history [compare with %s; contains with %s] with the process LC_COLLATE initially one of 5 locales (chosen by the solver) under every installed-locale configuration: lock free and LC_COLLATE restored' % (_u1, _u2)), globals())
