"""C19 — evaluation preserves process-global state: locale, locks, environment (threads and entities out)."""
import locale
import os
from harness.common import ob, define, parse_all, ev, L, P2, P31, XPathContext, ElementPathError, err_code
import elementpath.collations as coll

C = 'elementpath/collations.py'
INFO = dict(
    level='other',
    explanation='Bounded symbolic execution (CrossHair + z3) with the installed-locale configuration as a solver variable: the locale '
                'module used by elementpath.collations is replaced by a stub whose setlocale(name) succeeds iff a solver-chosen '
                'predicate over the requested names holds (C/POSIX always supported) and which tracks LC_COLLATE. For every collation '
                'URI of an enumerated set x functions taking a collation x histories of two evaluations: afterwards (returned or '
                'raised) the collation lock is free, LC_COLLATE is the initial one, any exception is an ElementPathError, and the '
                'second evaluation does not depend on the first. environment-variable / available-environment-variables are empty '
                'for every symbolic name with allow_environment off, and os.environ / decimal context are unchanged.',
    assumptions=['stub locale module: setlocale/getlocale/strcoll/strxfrm with the documented contract; the real C library is not run',
                 'thread interleavings (CrossHair is single-threaded) and entity expansion in parse-xml (expat) are outside the claim'])
URIS = ['http://www.w3.org/2005/xpath-functions/collation/codepoint',
        'http://www.w3.org/2005/xpath-functions/collation/html-ascii-case-insensitive',
        'http://www.w3.org/2013/collation/UCA?lang=de;fallback=yes', 'http://www.w3.org/2013/collation/UCA?lang=de;fallback=no',
        'http://www.w3.org/2013/collation/UCA?lang=it_IT.UTF-8', 'http://www.w3.org/2013/collation/UCA', 'it_IT.UTF-8', 'nonsense',
        'http://www.w3.org/2013/collation/UCA?lang=en.US.UTF-8;fallback=no', 'http://www.w3.org/2013/collation/UCA?fallback=maybe']
from harness.locstub import FakeLocale, _history, EXPRS, TOK
T_ENV = parse_all({'env': 'environment-variable($n)', 'all': 'available-environment-variables()'})


_SRC = '''
@ob(budget=90, tier={tier!r}, family='collation-history', bound={bound!r},
    funcs=[C + ':CollationManager.__enter__/__exit__', C + ':_locale_collate_lock', 'collation-taking functions'])
def history_{n}(de: bool, en_us: bool, it: bool, other: bool) -> bool:
    """
    post: _
    """
    return _history({k1!r}, {u1!r}, {k2!r}, {u2!r}, de, en_us, it, other)
'''
_keys = sorted(EXPRS)
_n = 0
for _i, _u1 in enumerate(URIS):
    for _j, _u2 in enumerate(URIS):
        _n += 1
        _k1, _k2 = _keys[(_i + _j) % len(_keys)], _keys[(_i * 3 + _j + 1) % len(_keys)]
        define(_SRC.format(n='%03d' % _n, k1=_k1, u1=_u1, k2=_k2, u2=_u2,
                           bound='history [%s with %s; %s with %s] under every installed-locale configuration (de, en_US, it_IT, any other: 16 cases chosen by the solver)' % (_k1, _u1, _k2, _u2), tier='quick' if (_n % 4 == 1 or _i == _j) else 'thorough'), globals())


@ob(budget=120, bound='variable name: any string of length <= 3; allow_environment left at its default (off)', funcs=['elementpath/xpath30/_xpath30_functions.py:environment-variable', 'available-environment-variables'])
def environment_hidden(n: str) -> bool:
    """
    pre: len(n) <= 3
    post: _
    """
    before = dict(os.environ)
    return ev(T_ENV['env'], n=n) == [] and ev(T_ENV['all']) == [] and ev(T_ENV['env'], n='PATH') == [] and dict(os.environ) == before


# --- added after seeded-change review: DOCTYPE/entity rejection in fn:parse-xml / parse-xml-fragment (bug-hunting: expat is C code) ---

PREFIXES = ('', ' ', chr(10), '<!-- c -->', '<?p q?>', '<?xml version="1.0"?>', '<?xml version="1.0"?><!-- c -->', '<!-- a --><?p q?> ')
T_XML = parse_all({'frag': 'parse-xml-fragment($t)', 'doc': 'parse-xml($t)'})


@ob(budget=60, tbudget=300, kind='hunt', bound='XML text = prefix (8 prolog variants chosen by the solver) + padding comment/PI of 0, 4 000, 70 000 or 140 000 characters + DOCTYPE declaring an internal entity + element using it; or an XML declaration with one of 5 multi-byte / unknown encodings, also on an lxml-backed context: parse-xml and parse-xml-fragment must raise ElementPathError, never expand (expat is C code: bug-hunting only)',
    funcs=['elementpath/xpath30/_xpath30_functions.py:parse-xml/parse-xml-fragment', 'elementpath/etree.py:defuse_xml'])
def entities_rejected(pi: int, frag: bool, padk: int, enc: int, lx: bool) -> bool:
    """
    pre: 0 <= pi <= 7 and 0 <= padk <= 3 and 0 <= enc <= 5
    post: _
    """
    if enc:
        # an XML declaration naming an encoding (multi-byte encodings make expat fail before the DOCTYPE): with an lxml-backed context too
        decl = '<?xml version="1.0" encoding="%s"?>' % ('Shift_JIS', 'EUC-JP', 'GBK', 'Big5', 'no-such-encoding')[enc - 1]
        text = decl + '<!DOCTYPE d [<!ENTITY e "boom">]><d>&e;</d>'
        root = None
        if lx:
            try:
                import lxml.etree as _lx
                root = _lx.fromstring('<a/>')
            except ImportError:      # pragma: no cover
                root = None
        try:
            T_XML['doc'].evaluate(XPathContext(root, variables={'t': text}) if root is not None else XPathContext(item=1, variables={'t': text}))
        except ElementPathError:
            return True
        return False
    pad = ('', '<!--' + ' ' * 4000 + '-->', '<!--' + 'x' * 70000 + '-->', '<?p ' + 'y' * 140000 + '?>')[padk]    # prolog padding beyond 64 KiB / 128 KiB
    text = PREFIXES[pi] + pad + '<!DOCTYPE d [<!ENTITY e "boom">]><d>&e;</d>'
    try:
        r = T_XML['frag' if frag else 'doc'].evaluate(XPathContext(item=1, variables={'t': text}))
    except ElementPathError:
        return True
    return False


# --- added after round-2 seeded changes: the process locale may already be the one a collation asks for -------------------------------

INITIALS = ((None, None), ('it_IT', 'UTF-8'), ('de', 'UTF-8'), ('C', 'UTF-8'), ('en_US', 'UTF-8'))
_SRC_I = '''
@ob(budget=90, family='collation-history-initial', bound={bound!r},
    funcs=[C + ':CollationManager.__enter__/__exit__', C + ':_locale_collate_lock'])
def history_initial_{n}(de: bool, en_us: bool, it: bool, other: bool, ii: int) -> bool:
    """
    pre: 0 <= ii <= 4
    post: _
    """
    return _history({k1!r}, {u1!r}, {k2!r}, {u2!r}, de, en_us, it, other, INITIALS[ii])
'''
for _n, (_u1, _u2) in enumerate((('it_IT.UTF-8', 'it_IT.UTF-8'), ('http://www.w3.org/2013/collation/UCA?lang=de;fallback=no', 'it_IT.UTF-8'),
                                 ('http://www.w3.org/2013/collation/UCA?lang=it_IT.UTF-8', 'http://www.w3.org/2013/collation/UCA?lang=de;fallback=yes'),
                                 ('http://www.w3.org/2013/collation/UCA?lang=C', 'http://www.w3.org/2013/collation/UCA?lang=C'))):
    define(_SRC_I.format(n=_n, k1='compare', u1=_u1, k2='contains', u2=_u2,
                         bound='history [compare with %s; contains with %s] with the process LC_COLLATE initially one of 5 locales (chosen by the solver) under every installed-locale configuration: lock free and LC_COLLATE restored' % (_u1, _u2)), globals())


# --- added after round-3 seeded changes: the decimal context and the shared Unicode tables are process-global state too ------------------

import decimal as _decimal  # noqa: E402
T_FMT = parse_all({'fmt': 'format-number($d, $p)', 'div': 'xs:decimal(1) div 3', 'round': 'round($d, 2)', 'sum': 'sum(($d, $d, 0.1))', 'str': 'string($d * $d)'})
BIG = ('1234567890123456789012345678.567', '0.5', '-99999999999999999999999999999999.995', '1e0', '123456789012345678901234567890123456789')
PICS = ('#.0', '#,##0.00', '0.###', '#')


@ob(budget=200, bound='format-number / round / sum / string on 5 decimals of up to 39 digits x 4 pictures (indices chosen by the solver): the decimal '
                      'context of the process (precision, rounding, traps) is the same afterwards and 1 div 3 gives the same digits',
    funcs=['elementpath/xpath30/_xpath30_functions.py:evaluate__format_number', 'decimal.getcontext'])
def decimal_context_unchanged(di: int, pi: int) -> bool:
    """
    pre: 0 <= di <= 4 and 0 <= pi <= 3
    post: _
    """
    from decimal import Decimal
    d = Decimal(BIG[[k for k in range(5) if k == di][0]])
    p = PICS[[k for k in range(4) if k == pi][0]]
    c = _decimal.getcontext()
    before = (c.prec, c.rounding, c.Emin, c.Emax, c.capitals, c.clamp, dict(c.traps))
    third = ev(T_FMT['div'])
    for key in ('fmt', 'round', 'sum', 'str'):
        try:
            ev(T_FMT[key], d=d, p=p)
        except ElementPathError:
            pass
    c = _decimal.getcontext()
    return (c.prec, c.rounding, c.Emin, c.Emax, c.capitals, c.clamp, dict(c.traps)) == before and ev(T_FMT['div']) == third


T_RX = parse_all({'m': 'matches($s, $p)', 'tok': 'tokenize($s, $p)'})
RX_POLLUTERS = ('^[\\D-[x]]$', '^[\\W-[_]]$', '^[\\P{L}-[_]]$', '^[\\S-[a]]$', '^[\\I-[1]]$', '^[\\C-[ ]]$', '^[\\P{Nd}-[x]]+$')
RX_PROBES = (('x', '^\\D$', True), ('x', '^\\p{Nd}$', False), ('a', '^\\S$', True),
             ('x', '^\\P{Nd}$', True), ('5', '^\\d$', True), ('_', '^\\P{L}$', True), ('_', '^\\p{L}$', False))


def _regex_history():
    """performed concretely, once, at import and BEFORE the condition below runs (the tracer trips over translate_pattern's nested
    closures on these patterns: 'ValueError: Cell is empty'): evaluations that build a class from a negated escape and subtract"""
    out = []
    for pol in RX_POLLUTERS:
        for subj in ('a', 'x'):
            try:
                out.append(ev(T_RX['m'], s=subj, p=pol))
                out.append(ev(T_RX['tok'], s='1' + subj + '2', p=pol.strip('^$+')))
            except ElementPathError as e:
                out.append(err_code(e))
    return out


_RX_HIST = _regex_history()


@ob(budget=200, bound='after a concrete history of 28 evaluations of 7 patterns whose bracket expression starts with a negated escape and subtracts a '
                      'character: 7 independent matches on the same escapes (index chosen by the solver) answer as on a fresh process',
    funcs=['elementpath/regex/character_classes.py:CharacterClass.add/__isub__', 'elementpath/regex/unicode_subsets.py (shared category subsets)'])
def regex_history_leaves_tables_alone(i: int) -> bool:
    """
    pre: 0 <= i <= 6
    post: _
    """
    subj, pat, want = RX_PROBES[[k for k in range(7) if k == i][0]]
    return ev(T_RX['m'], s=subj, p=pat) == [want] and len(_RX_HIST) == 28
