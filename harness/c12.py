"""C12 — XSD/XPath regular expressions translate to Python regexes with the same language (translation validation, E3)."""
import itertools
import os
import random
import re
import time
from harness.common import ob, define, parse_all, ev, ElementPathError, err_code, PLAIN
from harness.e2util import Queries
from verif_lib import rx
from elementpath.regex import translate_pattern, RegexError

R = 'elementpath/regex/patterns.py'
INFO = dict(
    level='translation_validation',
    explanation='For each XSD/XPath pattern P of an exhaustively enumerated grammar family, the Python regex text returned by the real '
                'translate_pattern(P) is parsed with CPython\'s own re._parser into a z3 regular expression, an independent reference '
                'parser for the W3C grammar (character classes from unicodedata) builds the specification language, both over a common '
                'minterm alphabet, and z3 decides  exists S . S in L(python) xor S in L(xsd)  — unsat means equal on every subject '
                'string of any length.  A sat answer is decoded to a concrete string and replayed with re on the real translated pattern.',
    assumptions=['subject strings of unbounded length over all 0x110000 code points (minterm classes)',
                 'pattern family: <= 3 atoms from a 40-atom set x 6 quantifiers x alternation x one group; flags none / s; XSD 1.0/1.1; '
                 'anchors off (XSD) and on (XPath, leading ^ / trailing $ only)',
                 'outside: back-references, i/m/x flags, \\i \\c on astral code points (XSD editions disagree), match positions '
                 '(language only)', 'reference: XML Schema Part 2 appendix F as implemented in verif_lib/rx.py:XsdRef'])

BLOCKS = {'BasicLatin': [(0, 0x7F)], 'Latin-1Supplement': [(0x80, 0xFF)], 'Greek': [(0x370, 0x3FF)]}
ATOMS = ['a', 'b', 'Z', '0', ' ', '-', ':', '\\.', '\\-', '\\n', '\\\\', '\\|', '.', '\\d', '\\D', '\\s', '\\S', '\\w', '\\W',
         '\\i', '\\I', '\\c', '\\C', '\\p{Lu}', '\\P{Nd}', '\\p{L}', '\\p{IsBasicLatin}', '\\P{IsBasicLatin}', '\\p{Zs}',
         '[abc]', '[a-c]', '[^a]', '[^a-c\\d]', '[\\d-[5]]', '[a-z-[aeiou]]', '[^a\\D]', '[^\\s]', '[\\S\\d]', '[\\-a]', '[a\\-]',
         '[^\\W\\d]', '[\\w-[\\d]]', '[\\D5-[5]]', '[\\S -[ q]]', '[\\P{L}a-z-[aeiou]]', '[\\Da-[\\Db]]', '[^a-[\\Db]]', '[\\D\\W]', '[^\\D\\S]', '[a-]', '[-a]', '[\\p{Lu}-[A-F]]', '[^\\p{L}]', '[\\n\\r\\t]', '[.]', '[$^]', '[\\^]']
QUANTS = ['', '?', '*', '+', '{2}', '{1,2}', '{2,}']
INVALID = ['(', ')', 'a)', '(a', '[', '[a', '[]', '[^]', 'a{2,1}', '*a', '+', '?', '{2}', 'a**', 'a+*', 'a{', 'a{x}', '\\q', '\\p{Xx}',
           '\\p{', '\\pL', '[b-a]', '[a-\\d]', 'a|*', '(?=a)', '(?i)a', '[[a]]', '\\', '[a-c-e]', '\\1', '[\\1]', ']', 'a]']


def family(tier, seed):
    """enumerated dimension: the pattern family (all patterns with <= 2 atoms; 3 atoms on a sub-alphabet)"""
    pats = []
    for a in ATOMS:
        for q in QUANTS:
            pats.append(a + q)
    small = ATOMS[:3] + ['.', '\\d', '\\s', '[^a\\D]', '[\\d-[5]]', '\\w', '[a-c]']
    for a, b in itertools.product(ATOMS, repeat=2):
        pats.append(a + b)
        pats.append(a + '|' + b)
    for a, b in itertools.product(small, repeat=2):
        for q in QUANTS[1:]:
            pats.append('(' + a + b + ')' + q)
            pats.append(a + q + b)
            pats.append('(' + a + '|' + b + ')' + q)
    for a, b, c in itertools.product(small[:6], repeat=3):
        pats.append(a + b + '*' + c)
        pats.append(a + '|' + b + c + '?')
    pats = list(dict.fromkeys(pats))
    if tier == 'thorough':
        return pats
    core = pats[:len(ATOMS) * len(QUANTS)] + [p for k, p in enumerate(pats) if k % 11 == 0]
    core = list(dict.fromkeys(core))
    rnd = random.Random(seed)
    coreset = set(core)
    rest = [p for p in pats if p not in coreset]
    return core + rnd.sample(rest, 300)


def _translate(pattern, version, dotall, xpath):
    flags = re.DOTALL if dotall else 0
    if xpath:
        return translate_pattern('^(?:' + pattern + ')$', flags=flags, xsd_version=version)
    return translate_pattern(pattern, flags=flags, xsd_version=version, back_references=False, lazy_quantifiers=False, anchors=False)


def _decide(pattern, version, dotall, q, cex, tag, xpath=False):
    flags = re.DOTALL if dotall else 0
    try:
        py = _translate(pattern, version, dotall, xpath)
    except RegexError as e:
        py = None
        err = str(e)
    try:
        if xpath:
            ref = rx.XsdRef('^(?:' + pattern + ')$', xsd_version=version, dotall=dotall, blocks=BLOCKS, xpath=True).parse()
        else:
            ref = rx.XsdRef(pattern, xsd_version=version, dotall=dotall, blocks=BLOCKS).parse()
    except rx.Invalid as e:
        if py is not None and _compiles(py, flags):
            cex.append(dict(call='replay_invalid(%r, %r, %r, %r)' % (pattern, version, dotall, xpath),
                            message='%s: reference grammar rejects the pattern (%s) but translate_pattern accepts it' % (tag, e)))
        return 'invalid-agreed'
    if py is None:
        cex.append(dict(call='replay_valid(%r, %r, %r, %r)' % (pattern, version, dotall, xpath),
                        message='%s: valid pattern rejected: %s' % (tag, err)))
        return 'rejected'
    try:
        ir = rx.from_sre(py, flags)
        res, wit, ncls, dt = rx.compare(ir, ref, timeout_ms=int(q.timeout_s * 1000))
    except rx.NotRegular as e:
        q.log.append(dict(query=tag, result='not-encodable', why=str(e)))
        q.unknown += 1
        return 'not-encodable'
    q.n += 1
    q.solver_s += dt
    if res == 'unknown':
        q.unknown += 1
        q.log.append(dict(query=tag, result='unknown', classes=ncls, s=round(dt, 2)))
    elif res == 'sat':
        q.log.append(dict(query=tag, result='sat', witness=wit, classes=ncls, s=round(dt, 2)))
        cex.append(dict(call='replay_language(%r, %r, %r, %r, %r)' % (pattern, version, dotall, wit, xpath),
                        message='%s: python pattern %r and XSD semantics disagree on subject %r' % (tag, py, wit)))
    return res


def _compiles(py, flags):
    try:
        re.compile(py, flags)
        return True
    except re.error:
        return False


def xsd_match(pattern, version, dotall, subject, xpath=False, icase=False):
    """concrete XSD matcher for replay: the reference IR interpreted by a backtracking-free subset construction"""
    if xpath:
        ref = rx.XsdRef('^(?:' + pattern + ')$', xsd_version=version, dotall=dotall, blocks=BLOCKS, xpath=True, icase=icase).parse()
    else:
        ref = rx.XsdRef(pattern, xsd_version=version, dotall=dotall, blocks=BLOCKS).parse()

    def inset(rs, cp):
        return any(a <= cp <= b for a, b in rs)

    def ends(x, i):
        """set of end positions of matches of x starting at i"""
        t = x[0]
        if t == 'set':
            return {i + 1} if i < len(subject) and inset(x[1], ord(subject[i])) else set()
        if t == 'cat':
            cur = {i}
            for y in x[1]:
                cur = set().union(*[ends(y, j) for j in cur]) if cur else set()
            return cur
        if t == 'alt':
            return set().union(*[ends(y, i) for y in x[1]])
        if t == 'rep':
            _, lo, hi, sub = x
            cur = {i}
            out = set(cur) if lo == 0 else set()
            k = 0
            seen = set()
            while cur and (hi is None or k < hi):
                cur = set().union(*[ends(sub, j) for j in cur])
                k += 1
                if k >= lo:
                    out |= cur
                key = (frozenset(cur))
                if hi is None and k >= lo and key in seen:
                    break
                seen.add(key)
            return out
        if t == 'bol':
            return {i} if i == 0 else set()
        if t == 'eos':
            return {i} if i == len(subject) else set()
        raise ValueError(t)
    return len(subject) in ends(ref, 0)


def replay_language(pattern, version, dotall, subject, xpath=False):
    flags = re.DOTALL if dotall else 0
    py = _translate(pattern, version, dotall, xpath)
    got = re.compile(py, flags).search(subject) is not None
    return got == xsd_match(pattern, version, dotall, subject, xpath)


def replay_invalid(pattern, version, dotall, xpath=False):
    try:
        py = _translate(pattern, version, dotall, xpath)
    except RegexError:
        return True
    return not _compiles(py, re.DOTALL if dotall else 0)


def replay_valid(pattern, version, dotall, xpath=False):
    try:
        _translate(pattern, version, dotall, xpath)
    except RegexError:
        return False
    return True


def _outside_classes(pattern):
    """the pattern text with every bracket expression removed"""
    out, depth, i = [], 0, 0
    while i < len(pattern):
        c = pattern[i]
        if c == '\\':
            if depth == 0:
                out.append(pattern[i:i + 2])
            i += 2
            continue
        if c == '[':
            depth += 1
        elif c == ']':
            depth -= 1
        elif depth == 0:
            out.append(c)
        i += 1
    return ''.join(out)


def _neg_escapes_in_class(pattern):
    n = 0
    for m in re.finditer(r'\[[^\[\]]*', pattern):
        kinds = set(re.findall(r'\\([SDWIC]|P\{[^}]*\})', m.group()))
        n = max(n, len(kinds))
    return n


# recorded findings (known_findings.json): the listed pattern classes are excluded from the main sweep and decided by their own
# witness obligations, so that any OTHER disagreement is still a VIOLATION
KNOWN_CLASSES = {
    'C12-space-escape': lambda p: re.search(r'\\[sS]', _outside_classes(p)) is not None,
    'C12-word-escape': lambda p: re.search(r'\\[wW]', _outside_classes(p)) is not None,
    'C12-two-negative-escapes': lambda p: _neg_escapes_in_class(p) >= 2,
}


def _is_known(pattern):
    return any(pred(pattern) for pred in KNOWN_CLASSES.values())


def _sweep(ctx, versions, dotalls, only_known=None, xpath=False):
    q = Queries(timeout_s=20, diff_binary=False)
    cex = []
    pats = family(ctx.get('tier', 'quick'), ctx.get('seed', 0))
    counts = {}
    t0 = time.time()
    for p in pats:
        if only_known is None and _is_known(p):
            continue
        if only_known is not None and not KNOWN_CLASSES[only_known](p):
            continue
        for v in versions:
            for d in dotalls:
                r = _decide(p, v, d, q, cex, 'P=%r xsd=%s s=%s%s' % (p, v, int(d), ' xpath' if xpath else ''), xpath=xpath)
                counts[r] = counts.get(r, 0) + 1
        if time.time() - t0 > ctx.get('budget', 300) * 0.9:
            q.log.append(dict(query='budget exhausted', done=counts))
            q.unknown += 1
            break
    q.samples.extend(['%r' % p for p in pats[:12]])
    res = q.result(cex[:20], detail=dict(programs=sum(counts.values()), outcomes=counts, distinct_patterns=len(pats)))
    res['detail']['queries'] = [x for x in q.log if x.get('result') != 'unsat'][:60]
    return res


@ob(engine='z3', budget=400, tbudget=3000, bound='all subject strings; pattern family (quick: 260 patterns, thorough: all) x XSD 1.0, flags none',
    funcs=[R + ':translate_pattern', 'elementpath/regex/character_classes.py:CharacterClass', 'elementpath/regex/unicode_subsets.py'])
def language_xsd10(ctx):
    return _sweep(ctx, ['1.0'], [False])


@ob(engine='z3', budget=400, tbudget=3000, bound='all subject strings; XPath mode (anchors, groups, back-reference support on): '
    '^(?:P)$ for every family pattern P, matched with search()', funcs=[R + ':translate_pattern'])
def language_xpath_anchored(ctx):
    return _sweep(ctx, ['1.0'], [False], xpath=True)


@ob(engine='z3', budget=400, tbudget=3000, bound='all subject strings; pattern family x XSD 1.1, flag s (dot-all)',
    funcs=[R + ':translate_pattern'])
def language_xsd11_dotall(ctx):
    return _sweep(ctx, ['1.1'], [True])


T = parse_all({'matches': 'matches("x", $p)', 'replace': 'replace($s, $p, "$0")', 'tokenize': 'tokenize($s, $p)',
               'match_flags': 'matches($s, $p, $f)'})


def replay_invalid_fn(pattern):
    """through fn:matches an invalid pattern must give FORX0002 (translate_pattern may also defer the error to re.compile)"""
    try:
        ev(T['matches'], p=pattern)
    except ElementPathError as e:
        return err_code(e) == 'FORX0002'
    return False


@ob(engine='z3', budget=60, bound='clear-cut invalid patterns must raise FORX0002 through fn:matches (concrete check per pattern)',
    funcs=[R + ':translate_pattern', 'elementpath/xpath2/_xpath2_functions.py:matches'])
def invalid_patterns_rejected(ctx):
    q = Queries(timeout_s=10, diff_binary=False)
    cex = []
    for p in INVALID:
        try:
            rx.XsdRef(p, xsd_version='1.0', xpath=True, blocks=BLOCKS).parse()
            continue      # the reference accepts it as an XPath regex: not clear-cut
        except rx.Invalid:
            pass
        except rx.NotRegular:
            continue
        q.n += 1
        if not replay_invalid_fn(p):
            cex.append(dict(call='replay_invalid_fn(%r)' % p, message='invalid pattern %r accepted by fn:matches' % p))
    q.samples.extend(INVALID[:8])
    return q.result(cex)


def _witness(ctx, fid):
    r = _sweep(dict(ctx, tier='quick'), ['1.0'], [False], only_known=fid)
    return r


@ob(engine='z3', budget=120, kind='witness', finding='C12-space-escape', bound='family patterns with \\s / \\S outside a class',
    funcs=[R + ':translate_pattern'])
def known_space_escape(ctx):
    return _witness(ctx, 'C12-space-escape')


@ob(engine='z3', budget=120, kind='witness', finding='C12-word-escape', bound='family patterns with \\w / \\W outside a class',
    funcs=[R + ':translate_pattern'])
def known_word_escape(ctx):
    return _witness(ctx, 'C12-word-escape')


@ob(engine='z3', budget=120, kind='witness', finding='C12-two-negative-escapes', bound='family patterns with two negative escapes in one class',
    funcs=['elementpath/regex/character_classes.py:CharacterClass.add'])
def known_two_negative_escapes(ctx):
    return _witness(ctx, 'C12-two-negative-escapes')


# --- E1: fn:matches / replace / tokenize on symbolic subjects (patterns enumerated) ------------------------------------------

F2 = 'elementpath/xpath2/_xpath2_functions.py'


@ob(budget=120, bound='subject: any string of length <= 3; pattern ^a*b$', funcs=[F2 + ':matches', R + ':translate_pattern'])
def matches_definition(s: str) -> bool:
    """
    pre: len(s) <= 3
    post: _
    """
    want = len(s) >= 1 and s[-1] == 'b' and all(c == 'a' for c in s[:-1])
    return ev(parse_T['m1'], s=s) == [want]


@ob(budget=60, tbudget=300, kind='hunt', bound='subject: any string of length <= 3; pattern [0-9]+ (search semantics; CrossHair regex model raises spuriously: bug-hunting)', funcs=[F2 + ':matches'])
def matches_search(s: str) -> bool:
    """
    pre: len(s) <= 3
    post: _
    """
    return ev(parse_T['m2'], s=s) == [any('0' <= c <= '9' for c in s)]


@ob(budget=60, tbudget=300, kind='hunt', bound='subject: any string of length <= 3 without $ and backslash; replace(s, "b", "$0") = s and '
    'string-join(tokenize) law (CrossHair re.sub/split models: bug-hunting)', funcs=[F2 + ':replace', F2 + ':tokenize'])
def replace_tokenize_laws(s: str) -> bool:
    """
    pre: len(s) <= 3
    post: _
    """
    return ev(parse_T['r1'], s=s) == [s] and ev(parse_T['t1'], s=s) == [s if s else '']


parse_T = parse_all({'m1': 'matches($s, "^a*b$")', 'm2': 'matches($s, "[0-9]+")', 'r1': 'replace($s, "b", "$0")',
                     't1': 'string-join(tokenize($s, "b"), "b")'})


# --- added after seeded-change review: multi-digit back-references (XPath mode), back-references as uninterpreted symbols ---------

LETTERS = 'abcdefghijkl'


def _groups(k):
    return ''.join('(%s)' % LETTERS[i] for i in range(k))


def backref_family():
    pats = []
    for k in (1, 2, 9, 10, 11, 12):
        for ref in ('1', '2', '9', '10', '11', '12', '19', '100', '110'):
            pats.append(_groups(k) + '\\' + ref)
            pats.append(_groups(k) + '\\' + ref + 'z')
            pats.append('x' + _groups(k) + '(?:y)' + '\\' + ref)
    return pats


def _ref_ir_to_py(ir):
    """reference IR -> a Python pattern built by the harness (back-references kept): the concrete oracle for replay"""
    t = ir[0]
    if t == 'set':
        rs = ir[1]
        return '[' + ''.join('%s-%s' % (re.escape(chr(a)), re.escape(chr(b))) for a, b in rs) + ']'
    if t == 'sym':
        return '(?:\\%d)' % ir[1]
    if t == 'cat':
        return ''.join(_ref_ir_to_py(x) for x in ir[1])
    if t == 'alt':
        return '(?:' + '|'.join(_ref_ir_to_py(x) for x in ir[1]) + ')'
    if t == 'rep':
        return '(?:%s){%d,%s}' % (_ref_ir_to_py(ir[3]), ir[1], '' if ir[2] is None else ir[2])
    if t == 'bol':
        return '^'
    if t == 'eos':
        return '\\Z'
    raise ValueError(t)


def replay_backref(pattern, subject):
    """concrete replay: the subject (back-reference symbols already replaced by the text of their group) must be treated alike by
    the translated pattern and by a Python pattern generated from the reference tokenisation of the back-references"""
    try:
        py = translate_pattern('^(?:' + pattern + ')$')
    except RegexError:
        py = None
    try:
        ref = _reference_with_groups(pattern)
    except rx.Invalid:
        ref = None
    if py is None or ref is None:
        return (py is None or not _compiles(py, 0)) == (ref is None)
    return (re.compile(py).search(subject) is not None) == (re.compile(ref).search(subject) is not None)


def _reference_with_groups(pattern):
    """reference Python pattern with real capturing groups: only for the literal-group family used here"""
    p = rx.XsdRef('^(?:' + pattern + ')$', xpath=True, blocks=BLOCKS)
    p.parse()      # validity and tokenisation of the back-references
    out, i, groups = [], 0, 0
    while i < len(pattern):
        c = pattern[i]
        if c == '\\' and pattern[i + 1].isdigit():
            n = int(pattern[i + 1])
            j = i + 2
            while j < len(pattern) and pattern[j].isdigit() and n * 10 + int(pattern[j]) <= groups:
                n = n * 10 + int(pattern[j])
                j += 1
            out.append('(?:\\%d)' % n)
            i = j
            continue
        if c == '(' and pattern[i:i + 3] != '(?:':
            groups += 1
        out.append(c)
        i += 1
    return '^(?:' + ''.join(out) + ')\\Z'


@ob(engine='z3', budget=120, bound='XPath mode, %d patterns with 1..12 literal capturing groups followed by \\N (N = 1..110): same language over the alphabet extended with one uninterpreted letter per back-reference (tokenisation of multi-digit back-references; matching semantics of back-references not modelled)' % len(backref_family()),
    funcs=[R + ':translate_pattern (back-reference branch)'])
def language_xpath_backrefs(ctx):
    q = Queries(timeout_s=20, diff_binary=False)
    cex = []
    counts = {}
    for p in backref_family():
        try:
            py = translate_pattern('^(?:' + p + ')$')
        except RegexError:
            py = None
        try:
            ref = rx.XsdRef('^(?:' + p + ')$', xpath=True, blocks=BLOCKS).parse()
        except rx.Invalid:
            ref = None
        if py is not None and not _compiles(py, 0):
            py = None       # the error is deferred to re.compile: fn:matches reports FORX0002 for it as well
        if ref is None or py is None:
            ok = (ref is None) == (py is None)
            counts['invalid-agreed' if ok else 'validity-differs'] = counts.get('invalid-agreed' if ok else 'validity-differs', 0) + 1
            if not ok:
                cex.append(dict(call='replay_backref(%r, %r)' % (p, 'a'), message='validity of %r differs' % p))
            continue
        try:
            res, wit, ncls, dt = rx.compare(rx.from_sre(py), ref, timeout_ms=20000)
        except rx.NotRegular as e:
            q.unknown += 1
            q.log.append(dict(query=p, result='not-encodable', why=str(e)))
            continue
        q.n += 1
        q.solver_s += dt
        counts[res] = counts.get(res, 0) + 1
        if res == 'sat':
            # replace the back-reference letters of the witness by the text of the referenced group
            subj = re.sub(chr(92) * 2 + '(?P<n>[0-9]+)', lambda m: LETTERS[int(m.group('n')) - 1] if int(m.group('n')) <= 12 else '?', wit)
            cex.append(dict(call='replay_backref(%r, %r)' % (p, subj), message='P=%r: python %r differs from the reference tokenisation, witness %r' % (p, py, wit)))
        elif res != 'unsat':
            q.unknown += 1
    q.samples.extend(backref_family()[:6])
    return q.result(cex[:10], detail=dict(programs=sum(counts.values()), outcomes=counts))


# --- added after round-2 seeded changes: translations must not depend on what was translated before (shared cached subsets) ---------

POLLUTERS = ['[\\S-[a7]]', '[\\D-[5x]]', '[\\W-[_q]]', '[\\I-[q:]]', '[\\C-[q.]]', '[^\\s-[ ]]', '[\\P{L}-[1]]', '[\\S\\d-[7]]']


@ob(engine='z3', budget=120, bound='all subject strings; after a history of translations of classes built from negated escapes with subtraction, every single-atom pattern x quantifier of the family still has the reference language',
    funcs=['elementpath/regex/character_classes.py:CharacterClass.add/__isub__ (cached subsets)', R + ':translate_pattern'])
def language_after_history(ctx):
    q = Queries(timeout_s=20, diff_binary=False)
    cex = []
    counts = {}
    _run_history()
    for a in ATOMS:
        for qf in ('', '+'):
            p = a + qf
            if _is_known(p):
                continue
            r = _decide(p, '1.0', False, q, cex, 'after-history P=%r' % p)
            counts[r] = counts.get(r, 0) + 1
    q.samples.extend(POLLUTERS[:4])
    for c in cex:       # the replay has to repeat the history first
        c['call'] = c['call'].replace('replay_language(', 'replay_language_after_history(', 1)
    res = q.result(cex[:10], detail=dict(programs=sum(counts.values()), outcomes=counts))
    return res


def _run_history():
    for p in POLLUTERS:
        for v in ('1.0', '1.1'):
            try:
                translate_pattern(p, xsd_version=v, back_references=False, lazy_quantifiers=False, anchors=False)
                translate_pattern(p, xsd_version=v)
            except RegexError:
                pass


def replay_language_after_history(pattern, version, dotall, subject, xpath=False):
    _run_history()
    return replay_language(pattern, version, dotall, subject, xpath)


# --- added after round-2 seeded changes: the i flag (F&O 5.6.2): normal characters and character ranges also match their case-variants,
#     category / block / multi-character escapes are NOT affected ------------------------------------------------------------------------

I_ATOMS = ['a', 'K', 'Q', chr(0xe9), chr(0xdf), chr(0x3c3), chr(0x131), chr(0x212a), chr(0x1c5), '1', '\\.', '[a-c]', '[^a-c]', '[^Q]', '[A-Z]', '[0-9]',
           '[k-m5]', '\\p{Lu}', '\\P{Lu}', '\\p{Ll}', '\\P{Ll}', '\\p{Lt}', '\\P{Lt}', '\\p{L}', '\\P{L}', '\\p{Nd}', '\\P{Nd}', '\\p{IsBasicLatin}',
           '\\P{IsBasicLatin}', '\\p{IsGreek}', '\\d', '\\D', '.', '[\\d]', '[\\dx]', '[^\\dx]', '\\i', '\\I', '\\c', '\\C']
I_CLASS_ESCAPES = ['[\\p{Lu}]', '[^\\p{Lu}]', '[\\P{Lu}x]', '[\\p{Ll}1]', '[\\p{Lu}-[A-C]]']
I_SUBTRACTION = ['[A-Z-[IO]]', '[a-zI-[i]]', '[a-z-[E]]']
# recorded findings under the i flag: pattern classes decided by their own witness obligations (the main i sweep has no bracket
# expression containing a category escape and no class subtraction)
I_KNOWN = {'C12-icase-class-escape': I_CLASS_ESCAPES, 'C12-icase-subtraction': I_SUBTRACTION}


def _icase_family(atoms, tier):
    pats = []
    for a in atoms:
        for qn in ('', '*', '{2}', '?'):
            pats.append(a + qn)
    step = 1 if tier == 'thorough' else 7
    k = 0
    for a in atoms:
        for b in atoms:
            k += 1
            if k % step == 0:
                pats.append(a + b)
                pats.append(a + '|' + b + '+')
    return list(dict.fromkeys(pats))


def replay_language_icase(pattern, version, subject):
    """through the public function: fn:matches(subject, '^(?:P)$', 'i') against the reference matcher with case-variants"""
    got = ev(T['match_flags'], s=subject, p='^(?:' + pattern + ')$', f='i') == [True]
    return got == xsd_match(pattern, version, False, subject, xpath=True, icase=True)


def _icase_sweep(ctx, atoms, version='1.0'):
    q = Queries(timeout_s=20, diff_binary=False)
    cex = []
    counts = {}
    pats = _icase_family(atoms, ctx.get('tier', 'quick'))
    t0 = time.time()
    for p in pats:
        tag = 'P=%r xsd=%s flags=i xpath' % (p, version)
        try:
            py = translate_pattern('^(?:' + p + ')$', flags=re.IGNORECASE, xsd_version=version)
        except RegexError as e:
            cex.append(dict(call='replay_language_icase(%r, %r, %r)' % (p, version, 'a'), message='%s: valid pattern rejected: %s' % (tag, e)))
            continue
        ref = rx.XsdRef('^(?:' + p + ')$', xsd_version=version, blocks=BLOCKS, xpath=True, icase=True).parse()
        try:
            ir = rx.from_sre(py, re.IGNORECASE)
            res, wit, ncls, dt = rx.compare(ir, ref, timeout_ms=int(q.timeout_s * 1000))
        except rx.NotRegular as e:
            q.log.append(dict(query=tag, result='not-encodable', why=str(e)))
            q.unknown += 1
            continue
        q.n += 1
        q.solver_s += dt
        counts[res] = counts.get(res, 0) + 1
        if res == 'unknown':
            q.unknown += 1
            q.log.append(dict(query=tag, result='unknown', classes=ncls, s=round(dt, 2)))
        elif res == 'sat':
            q.log.append(dict(query=tag, result='sat', witness=wit, classes=ncls, s=round(dt, 2)))
            cex.append(dict(call='replay_language_icase(%r, %r, %r)' % (p, version, wit),
                            message='%s: python pattern %r and XSD semantics with the i flag disagree on subject %r' % (tag, py[:80], wit)))
        if time.time() - t0 > ctx.get('budget', 300) * 0.9:
            q.log.append(dict(query='budget exhausted', done=counts))
            q.unknown += 1
            break
    q.samples.extend(['%r' % p for p in pats[:12]])
    res = q.result(cex[:20], detail=dict(programs=sum(counts.values()), outcomes=counts, distinct_patterns=len(pats)))
    res['detail']['queries'] = [x for x in q.log if x.get('result') != 'unsat'][:60]
    return res


@ob(engine='z3', budget=400, tbudget=2000, bound='all subject strings; flag i; XPath mode ^(?:P)$; P from a family over 40 atoms (literals with and '
    'without case-variants, ranges, negated groups, category / block / digit / name escapes) x 4 quantifiers, and pairs (quick: every 7th); '
    'case-variants = classes of the simple Unicode case mappings', funcs=[R + ':translate_pattern'])
def language_icase(ctx):
    return _icase_sweep(ctx, I_ATOMS)


@ob(engine='z3', budget=120, kind='witness', finding='C12-icase-class-escape', bound='flag i: bracket expressions containing a category escape',
    funcs=[R + ':translate_pattern', 'elementpath/regex/character_classes.py:CharacterClass'])
def known_icase_class_escape(ctx):
    return _icase_sweep(dict(ctx, tier='quick'), I_KNOWN['C12-icase-class-escape'])


@ob(engine='z3', budget=120, kind='witness', finding='C12-icase-subtraction', bound='flag i: character class subtraction whose parts differ in case',
    funcs=[R + ':translate_pattern', 'elementpath/regex/character_classes.py:CharacterClass'])
def known_icase_subtraction(ctx):
    return _icase_sweep(dict(ctx, tier='quick'), I_KNOWN['C12-icase-subtraction'])


# --- added after round-3 seeded changes: bracket expressions whose members are merged in several steps (a later member covering earlier ones);
#     blocks introduced by the Unicode version of the running interpreter -----------------------------------------------------------------------

import unicodedata as _ud  # noqa: E402
_UV = tuple(int(x) for x in _ud.unidata_version.split('.'))
BLOCKS_BY_VERSION = [((15, 0, 0), 'Kawi', (0x11F00, 0x11F5F)), ((15, 0, 0), 'CyrillicExtended-D', (0x1E030, 0x1E08F)),
                     ((14, 0, 0), 'Vithkuqi', (0x10570, 0x105BF)), ((13, 0, 0), 'Yezidi', (0x10E80, 0x10EBF)), ((3, 1, 0), 'Gothic', (0x10330, 0x1034F))]
for _v, _name, _rng in BLOCKS_BY_VERSION:
    if _UV >= _v:
        BLOCKS[_name] = [_rng]
EXTRA_ATOMS = ['[dh\\sa-z]', '[a-z\\sdh]', '[dha-z]', '[ceb-y]', '[cea-b]', '[\\p{Lu}\\p{L}]', '[\\p{L}\\p{Lu}]', '[\\p{Pd}\\p{P}]', '[\\p{Nd}0-9a]', '[b-df-ha-z]',
               '[^dha-z]', '[x\\p{Lu}\\p{L}-[A-C]]'] \
    + [t % n for _v, n, _r in BLOCKS_BY_VERSION if _UV >= _v for t in ('\\p{Is%s}', '\\P{Is%s}', '[\\p{Is%s}a]', '[^\\p{Is%s}]')]


@ob(engine='z3', budget=300, bound='all subject strings; bracket expressions whose members are merged in several steps and the blocks of the Unicode '
    'versions up to the running interpreter\'s (independent block ranges), each alone and with * (XSD 1.0 and XPath anchored mode); '
    '3 patterns with an optional $',
    funcs=[R + ':translate_pattern', 'elementpath/regex/unicode_subsets.py:UnicodeSubset.add', 'elementpath/regex/unicode_subsets.py:UnicodeData.__init__'])
def language_extra_atoms(ctx):
    q = Queries(timeout_s=20, diff_binary=False)
    cex = []
    counts = {}
    for p in ('a$?b', 'a${0,1}b', 'a($)?b'):
        # optional anchors (XPath mode only; anchors under * + {n} are not encodable: see quantified_anchor_matches)
        r = _decide(p, '1.0', False, q, cex, 'P=%r xsd=1.0 xpath' % p, xpath=True)
        counts[r] = counts.get(r, 0) + 1
    for a in EXTRA_ATOMS:
        for p in (a, a + '*', 'x' + a):
            if _is_known(p):
                continue
            for xpath in (False, True):
                r = _decide(p, '1.0', False, q, cex, 'P=%r xsd=1.0%s' % (p, ' xpath' if xpath else ''), xpath=xpath)
                counts[r] = counts.get(r, 0) + 1
    q.samples.extend(['%r' % p for p in EXTRA_ATOMS[:12]])
    res = q.result(cex[:20], detail=dict(programs=sum(counts.values()), outcomes=counts, distinct_patterns=3 * len(EXTRA_ATOMS)))
    res['detail']['queries'] = [x for x in q.log if x.get('result') != 'unsat'][:60]
    return res


# --- quantified anchors (not encodable in E3 when under * + {n}, or when the translation puts a look-ahead under a quantifier): fn:matches on a
#     table of subjects against the reference matcher ------------------------------------------------------------------------------------------

QA_PATTERNS = ('a$?b', 'a$*b', 'a${0}b', 'a${0,1}b', 'a$+', '^?a', '^*ba', '(^a)?b', 'a($)?b', '(a$)*b', 'a$', '^a$?')
QA_SUBJECTS = ('ab', 'a', 'b', 'aab', 'ba', '', 'abab', 'a' + chr(10) + 'b', 'a' + chr(10))
T_QA = parse_all({'m': 'matches($s, $p)', 'r': 'replace($s, $p, "[$0]")', 't': 'count(tokenize($s, $p))'})


@ob(budget=200, bound='12 patterns with a quantifier on ^ or $ x 9 subjects (indices chosen by the solver): fn:matches = the reference XSD/XPath '
                      'matcher in search mode',
    funcs=[R + ':translate_pattern (anchors under quantifiers)', F2 + ':matches'])
def quantified_anchor_matches(pi: int, si: int) -> bool:
    """
    pre: 0 <= pi <= 11 and 0 <= si <= 8
    post: _
    """
    p = QA_PATTERNS[[k for k in range(12) if k == pi][0]]
    subj = QA_SUBJECTS[[k for k in range(9) if k == si][0]]
    # search mode = the whole subject matches  [\s\S]* (?:P) [\s\S]*  (anchors inside P still refer to the ends of the subject)
    want = xsd_match('[' + chr(92) + 's' + chr(92) + 'S]*(?:' + p + ')[' + chr(92) + 's' + chr(92) + 'S]*', '1.0', False, subj, xpath=True)
    return ev(T_QA['m'], s=subj, p=p) == [want]


# --- fn:tokenize against the partition fn:analyze-string computes (the consistency law of the property): patterns with capturing groups and
#     anchors, where `re.split` semantics (captured groups are returned, a later `search` on a token) differ from "the parts between matches" -----

TK_PATTERNS = ('(a)(b)', '^a', '(a)|(c)', 'a(b)?', '(a)+', 'b$', '(a|b)' + chr(92) + '1', 'ab', '(x)?a', '^(a)')
TK_SUBJECTS = ('xaby', 'aab', 'abab', 'xabyab', 'aabb', '', 'b', 'ab', 'cab')
T_TK = parse_all({'t': 'tokenize($s, $p)', 'a': 'analyze-string($s, $p)/*/(local-name(), string(.))'})


def _tokens_from_partition(parts):
    """tokens = the non-match parts, with a zero-length token at the start/end of the input and between two adjacent matches (F&O 5.6.4)"""
    tokens, cur = [], ''
    for k in range(0, len(parts), 2):
        if parts[k] == 'match':
            tokens.append(cur)
            cur = ''
        else:
            cur = parts[k + 1]
    tokens.append(cur)
    return tokens


@ob(budget=200, bound='10 patterns with capturing groups / anchors / back-references x 9 subjects (indices chosen by the solver): fn:tokenize returns exactly '
                      'the parts between the matches of the partition fn:analyze-string reports (no captured group text, no token dropped)',
    funcs=[F2 + ':tokenize', 'elementpath/xpath30/_xpath30_functions.py:analyze-string'])
def tokenize_is_the_nonmatch_parts(pi: int, si: int) -> bool:
    """
    pre: 0 <= pi <= 9 and 0 <= si <= 8
    post: _
    """
    p = TK_PATTERNS[[k for k in range(10) if k == pi][0]]
    subj = TK_SUBJECTS[[k for k in range(9) if k == si][0]]
    parts = ev(T_TK['a'], s=subj, p=p)
    want = _tokens_from_partition(parts) if subj else []
    return ev(T_TK['t'], s=subj, p=p) == want
