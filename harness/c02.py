"""C02 — node trees are faithful, strictly document-ordered images of the input XML (DESIGN §4 C02)."""
from typing import Optional
from harness.common import ob, define, parse_all, L, P31, XPathContext, ElementPathError, pyet, PLAIN
from elementpath.tree_builders import build_node_tree, build_lxml_node_tree, get_node_tree
from elementpath.xpath_nodes import ElementNode, TextNode, AttributeNode, NamespaceNode, CommentNode, DocumentNode

TB = 'elementpath/tree_builders.py'
INFO = dict(
    level='other',
    explanation='Bounded symbolic execution (CrossHair + z3) of the real tree builders on pure-Python ElementTree inputs whose '
                'attribute counts (0..2 per element), namespace-map size (0..2, with or without xml), optional text/tail chunks '
                '(symbolic strings or None), root kind (Element / ElementTree) and fragment flag are solver variables: exactly one '
                'node per element, attribute, in-scope namespace, comment and non-None text chunk; positions unique and strictly '
                'increasing in document order, lazily created namespace/attribute nodes inside their element\'s gap before the first '
                'child; parent/children links consistent; string values equal the concatenated descendant text. Set operators and '
                'is/<</>> on a 4-element tree with symbolic labels agree with identity and preorder.',
    assumptions=['shapes: a 3-element chain and a 4-element tree (enumerated); counts, strings and flags symbolic',
                 'the lxml builder is driven through a pure-Python stand-in exposing the attributes it reads (bug-hunting only); real '
                 'lxml objects cannot be made symbolic'])
ET = pyet()
XMLNS = 'http://www.w3.org/XML/1998/namespace'


def _chain(n0, n1, n2, t0, t1, tail1, t2, with_comment):
    E = ET.Element
    r, x, y = E('r'), E('x'), E('y')
    for e, n in ((r, n0), (x, n1), (y, n2)):
        for i in range(n):
            e.set('a%d' % i, 'v%d' % i)
    r.text, x.text, x.tail, y.text = t0, t1, tail1, t2
    r.append(x)
    x.append(y)
    if with_comment:
        r.append(ET.Comment('c'))
    return r, x, y


def _nsmap(nns, hasxml):
    ns = {'p%d' % i: 'u%d' % i for i in range(nns)}
    if hasxml:
        ns['xml'] = XMLNS
    return ns


_POS = '''
@ob(budget=300, bound='3-element chain; attributes 0..2 on two elements; namespaces 0..2 (+xml or not); 3 optional text chunks; {what}',
    funcs=[TB + ':build_node_tree', 'elementpath/xpath_nodes.py:ElementNode.namespace_nodes/attributes/iter_document'])
def positions_strictly_increase_{name}(n0: int, n1: int, nns: int, hasxml: bool, t0: Optional[str], t1: Optional[str],
                                tail1: Optional[str]) -> bool:
    """
    pre: 0 <= n0 <= 2 and 0 <= n1 <= 2 and 0 <= nns <= 2
    pre: all(t is None or len(t) <= 1 for t in (t0, t1, tail1))
    post: _
    """
    r, x, y = _chain(n0, n1, 1, t0, t1, tail1, None, {wc})
    root = build_node_tree(ET.ElementTree(r) if {doc} else r, _nsmap(nns, hasxml))
    last, count = 0, 0
    seen = set()
    for node in root.iter_document():
        count += 1
        if node.position <= last or id(node) in seen:
            return False
        seen.add(id(node))
        last = node.position
    exp = (1 if {doc} else 0) + 3 + n0 + n1 + 1 + 3 * (nns + 1) + sum(1 for t in (t0, t1, tail1) if t is not None) + (1 if {wc} else 0)
    return count == exp
'''
for _doc in (False, True):
    for _wc in (False, True):
        define(_POS.format(name=('doc' if _doc else 'elem') + ('_comment' if _wc else ''), doc=_doc, wc=_wc,
                           what=('ElementTree root' if _doc else 'Element root') + (', with a comment' if _wc else '')), globals())


@ob(budget=300, bound='3-element chain; attributes 0..2; namespaces 0..2; optional texts: lazily built namespace/attribute nodes lie in their element\'s gap, before its first child',
    funcs=['elementpath/xpath_nodes.py:ElementNode.namespace_nodes', 'elementpath/xpath_nodes.py:EtreeElementNode.attributes'])
def lazy_nodes_inside_gap(n0: int, n1: int, nns: int, hasxml: bool, t0: Optional[str], t1: Optional[str]) -> bool:
    """
    pre: 0 <= n0 <= 2 and 0 <= n1 <= 2 and 0 <= nns <= 2 and all(t is None or len(t) <= 1 for t in (t0, t1))
    post: _
    """
    r, x, y = _chain(n0, n1, 1, t0, t1, None, None, False)
    root = build_node_tree(r, _nsmap(nns, hasxml))
    for el in root.iter_lazy() if hasattr(root, 'iter_lazy') else [root]:
        pass
    stack = [root]
    while stack:
        el = stack.pop()
        if not isinstance(el, ElementNode):
            continue
        kids = list(el.children)
        first_child_pos = kids[0].position if kids else None
        pos = el.position
        for ns in el.namespace_nodes:
            if not (ns.position > pos and ns.parent is el):
                return False
            pos = ns.position
        for a in el.attributes:
            if not (a.position > pos and a.parent is el):
                return False
            pos = a.position
        if first_child_pos is not None and pos >= first_child_pos:
            return False
        stack.extend(kids)
    return True


def _texts(node):
    if isinstance(node, TextNode):
        return node.value
    if isinstance(node, (ElementNode, DocumentNode)):
        return ''.join(_texts(c) for c in node.children)
    return ''


@ob(budget=300, bound='3-element chain; 4 optional text chunks (strings of length <= 1 or None; the tail of x or the text of its child y is empty: known finding C02-string-value-order excluded); comment or not: links consistent, string-value = concatenated descendant text',
    funcs=[TB + ':build_node_tree', 'elementpath/xpath_nodes.py:string_value'])
def links_and_string_values(t0: Optional[str], t1: Optional[str], tail1: Optional[str], t2: Optional[str], wc: bool, doc: bool) -> bool:
    """
    pre: all(t is None or len(t) <= 1 for t in (t0, t1, tail1, t2))
    pre: not tail1 or not t2
    post: _
    """
    r, x, y = _chain(1, 0, 1, t0, t1, tail1, t2, wc)
    root = build_node_tree(ET.ElementTree(r) if doc else r)
    want = (t0 or '') + (t1 or '') + (t2 or '') + (tail1 or '')
    if root.string_value != want:
        return False
    stack = [root]
    elems = []
    while stack:
        n = stack.pop()
        for c in (getattr(n, 'children', None) or []):
            if c.parent is not n:
                return False
            stack.append(c)
        if isinstance(n, ElementNode):
            elems.append(n)
            if n.string_value != _texts(n):
                return False
    return sorted(e.elem.tag for e in elems) == ['r', 'x', 'y'] and [e.elem for e in elems if e.elem.tag == 'y'][0] is y



@ob(budget=60, kind='witness', finding='C02-string-value-order',
    bound='3-element chain r(x(y)): x has a non-empty tail and y a non-empty text', funcs=['elementpath/etree.py:etree_iter_strings'])
def known_string_value_order(tail1: str, t2: str) -> bool:
    """
    pre: len(tail1) == 1 and len(t2) == 1 and 'a' <= tail1 <= 'b' and 'a' <= t2 <= 'b'
    post: _
    """
    r, x, y = _chain(0, 0, 0, None, None, tail1, t2, False)
    return build_node_tree(r).string_value == t2 + tail1


# --- identity and order operators on a 4-element tree with symbolic labels ----------------------------------------------------

P4 = (-1, 0, 1, 0)
T = parse_all({'union': '//b | //a', 'intersect': '//a intersect //*[@k]', 'except': '//* except //a', 'unionrev': '(//a/.. | //b | /*)',
               'before': 'for $x in //*, $y in //* return $x << $y', 'after': 'for $x in //*, $y in //* return $x >> $y',
               'is': 'for $x in //*, $y in //* return $x is $y', 'root': 'for $x in //* return root($x) is /',
               'outer': 'outermost(//a)', 'inner': 'innermost(//a)'})


def _tree(tags, k1, k3):
    els = [ET.Element(t) for t in tags]
    for i, p in enumerate(P4):
        if p >= 0:
            els[p].append(els[i])
    if k1:
        els[1].set('k', 'v')
    if k3:
        els[3].set('k', 'v')
    return els


def _idx(res, els):
    out = []
    for r in res:
        e = getattr(r, 'elem', None)
        hit = [i for i in range(len(els)) if els[i] is e]
        out.append(hit[0] if hit else '?')
    return out


def _anc(i):
    out = []
    k = P4[i]
    while k != -1:
        out.append(k)
        k = P4[k]
    return out


@ob(budget=300, bound='4-element tree r(x(y), z): tags over {a,b,c}, two optional attributes: union/intersect/except sorted, duplicate-free, equal to the set model',
    funcs=['elementpath/xpath2/_xpath2_operators.py:union/intersect/except', 'elementpath/xpath1/_xpath1_operators.py:|'])
def set_operators(t0: str, t1: str, t2: str, t3: str, k1: bool, k3: bool) -> bool:
    """
    pre: all(len(t) == 1 and 'a' <= t <= 'c' for t in (t0, t1, t2, t3))
    post: _
    """
    tags = [t0, t1, t2, t3]
    els = _tree(tags, k1, k3)
    doc = ET.ElementTree(els[0])
    ev = lambda k: _idx(L(T[k].evaluate(XPathContext(doc))), els)   # noqa: E731
    A = [i for i in range(4) if tags[i] == 'a']
    B = [i for i in range(4) if tags[i] == 'b']
    K = [i for i, k in ((1, k1), (3, k3)) if k]
    parents_of_a = sorted({P4[i] for i in A if P4[i] >= 0})
    return ev('union') == sorted(set(A) | set(B)) and ev('intersect') == sorted(set(A) & set(K)) \
        and ev('except') == [i for i in range(4) if i not in A] \
        and [x for x in ev('unionrev') if x != '?'] == sorted(set(parents_of_a) | set(B) | {0})


@ob(budget=300, bound='4-element tree: tags over {a,b,c}: is, <<, >> over all 16 node pairs agree with identity and preorder; root(); outermost/innermost',
    funcs=['elementpath/xpath2/_xpath2_operators.py:is << >>', 'fn:root', 'fn:outermost', 'fn:innermost'])
def order_operators(t0: str, t1: str, t2: str, t3: str) -> bool:
    """
    pre: all(len(t) == 1 and 'a' <= t <= 'c' for t in (t0, t1, t2, t3))
    post: _
    """
    tags = [t0, t1, t2, t3]
    els = _tree(tags, False, False)
    doc = ET.ElementTree(els[0])
    ctx = lambda: XPathContext(doc)   # noqa: E731
    pairs = [(i, j) for i in range(4) for j in range(4)]
    A = [i for i in range(4) if tags[i] == 'a']
    outer = [i for i in A if not any(a in A for a in _anc(i))]
    inner = [i for i in A if not any(i in _anc(j) for j in A)]
    return L(T['before'].evaluate(ctx())) == [i < j for i, j in pairs] and L(T['after'].evaluate(ctx())) == [i > j for i, j in pairs] \
        and L(T['is'].evaluate(ctx())) == [i == j for i, j in pairs] and L(T['root'].evaluate(ctx())) == [True] * 4 \
        and _idx(L(T['outer'].evaluate(ctx())), els) == outer and _idx(L(T['inner'].evaluate(ctx())), els) == inner


# --- added after seeded-change review: fn:root on attribute and namespace nodes, also of childless elements --------------------

T.update(parse_all({'root_attr': 'for $n in //@* return root($n) is root(/*)', 'root_ns': 'for $n in //namespace::* return root($n) is root(/*)',
                    'count_attr': 'count(//@*)', 'attr_parent': 'for $n in //@* return $n/.. is (//*[@*])[1] or $n/.. is (//*[@*])[2] or $n/.. is (//*[@*])[3]'}))


@ob(budget=300, bound='4-element tree r(x(y), z) with 0..2 attributes on x, y (childless) and z (childless), namespaces 0..1: root() of every attribute and namespace node is the tree root',
    funcs=['elementpath/xpath_context.py:get_root', 'elementpath/xpath_nodes.py:ElementNode.iter_lazy', 'fn:root'])
def root_of_attributes_and_namespaces(n1: int, n2: int, n3: int, nns: int) -> bool:
    """
    pre: 0 <= n1 <= 2 and 0 <= n2 <= 2 and 0 <= n3 <= 2 and 0 <= nns <= 1
    post: _
    """
    els = _tree(['r', 'x', 'y', 'z'], False, False)
    for e, n in ((els[1], n1), (els[2], n2), (els[3], n3)):
        for i in range(n):
            e.set('a%d' % i, 'v')
    # always an ElementTree document: a bare pure-Python root element is not recognised like a C element (tool artefact, DESIGN §2)
    src = ET.ElementTree(els[0])
    ns = {'p%d' % i: 'u%d' % i for i in range(nns)}
    ctx = lambda: XPathContext(src, namespaces=ns)   # noqa: E731
    total = n1 + n2 + n3
    return L(T['count_attr'].evaluate(ctx())) == [total] and L(T['root_attr'].evaluate(ctx())) == [True] * total \
        and L(T['root_ns'].evaluate(ctx())) == [True] * (4 * (nns + 1)) and L(T['attr_parent'].evaluate(ctx())) == [True] * total


# --- added after round-2 seeded changes: the same operators with an Element or ElementTree root and every fragment setting --------------

T.update(parse_all({'outer_f': 'outermost(descendant-or-self::a)', 'inner_f': 'innermost(descendant-or-self::a)',
                    'anc_f': 'for $x in descendant-or-self::* return count($x/ancestor::*)',
                    'ancself_f': 'for $x in descendant-or-self::* return count($x/ancestor-or-self::*)',
                    'before_f': 'for $x in descendant-or-self::*, $y in descendant-or-self::* return $x << $y',
                    'is_f': 'for $x in descendant-or-self::*, $y in descendant-or-self::* return $x is $y',
                    'root_f': 'for $x in descendant-or-self::* return root($x) is root(.)',
                    'all_f': 'descendant-or-self::*'}))
FRAGMENTS = (None, True, False)


@ob(budget=300, bound='4-element tree r(x(y), z): tags over {a,b}; root passed as Element or ElementTree; fragment in {None, True, False}: '
                      'ancestor counts, <<, is, root(), outermost/innermost agree with the tree',
    funcs=['elementpath/xpath_context.py:XPathContext.iter_ancestors', 'fn:outermost', 'fn:innermost', 'elementpath/xpath_context.py:XPathContext.__init__'])
def order_operators_fragment(t0: str, t1: str, t2: str, t3: str, as_tree: bool, fi: int) -> bool:
    """
    pre: all(len(t) == 1 and 'a' <= t <= 'b' for t in (t0, t1, t2, t3)) and 0 <= fi <= 2
    post: _
    """
    tags = [t0, t1, t2, t3]
    els = _tree(tags, False, False)
    root = ET.ElementTree(els[0]) if as_tree else els[0]
    ctx = lambda: XPathContext(root, fragment=FRAGMENTS[fi])   # noqa: E731
    pairs = [(i, j) for i in range(4) for j in range(4)]
    A = [i for i in range(4) if tags[i] == 'a']
    outer = [i for i in A if not any(a in A for a in _anc(i))]
    inner = [i for i in A if not any(i in _anc(j) for j in A)]
    depth = [len(_anc(i)) for i in range(4)]
    return _idx(L(T['all_f'].evaluate(ctx())), els) == [0, 1, 2, 3] \
        and L(T['anc_f'].evaluate(ctx())) == depth and L(T['ancself_f'].evaluate(ctx())) == [d + 1 for d in depth] \
        and L(T['before_f'].evaluate(ctx())) == [i < j for i, j in pairs] and L(T['is_f'].evaluate(ctx())) == [i == j for i, j in pairs] \
        and L(T['root_f'].evaluate(ctx())) == [True] * 4 \
        and _idx(L(T['outer_f'].evaluate(ctx())), els) == outer and _idx(L(T['inner_f'].evaluate(ctx())), els) == inner


# --- added after round-2 seeded changes: REAL lxml documents with comments / PIs as siblings of the root element -------------------------

try:
    import lxml.etree as LX
except ImportError:        # pragma: no cover
    LX = None
from elementpath.xpath_nodes import ProcessingInstructionNode  # noqa: E402
T.update(parse_all({'all_nodes': '(/ | //node() | //@*)', 'before_all': 'for $x in (/ | //node() | //@*), $y in (/ | //node() | //@*) return $x << $y'}))


def _pick(n, top):
    for k in range(top + 1):
        if n == k:
            return k
    return top


@ob(budget=450, bound='lxml document: 0..2 comments and 0..1 PI before the root element, 0..1 comment after it and a PI after it iff one before, 0..2 attributes '
                      'and 0..1 namespace declaration on the root, one child with text and tail (counts chosen by the solver; lxml trees '
                      'are concrete on each path): one node per item in document order, positions strictly increasing, links consistent, '
                      '<< = list order',
    funcs=[TB + ':build_lxml_node_tree', 'elementpath/xpath_nodes.py:DocumentNode', 'elementpath/xpath2/_xpath2_operators.py:<<'])
def lxml_document_level_nodes(nb: int, pb: int, na: int, nattr: int, nns: int) -> bool:
    """
    pre: 0 <= nb <= 2 and 0 <= pb <= 1 and 0 <= na <= 1 and 0 <= nattr <= 2 and 0 <= nns <= 1
    post: _
    """
    if LX is None:
        return True
    nb, pb, na, nattr, nns = _pick(nb, 2), _pick(pb, 1), _pick(na, 1), _pick(nattr, 2), _pick(nns, 1)
    pa = pb
    text = '<!--b-->' * nb + '<?p q?>' * pb + '<r' + ' xmlns:n="u"' * nns + ' k="1"' * (nattr > 0) + ' j="2"' * (nattr > 1) + '>h<x>t</x>l</r>' \
        + '<!--a-->' * na + '<?s z?>' * pa
    doc = LX.fromstring(text).getroottree()
    root = build_lxml_node_tree(doc)
    if not isinstance(root, DocumentNode):
        return False
    kinds = [type(c).__name__ for c in root.children]
    if kinds != ['CommentNode'] * nb + ['ProcessingInstructionNode'] * pb + ['EtreeElementNode'] + ['CommentNode'] * na + ['ProcessingInstructionNode'] * pa:
        return False
    order = []
    stack = [root]
    while stack:
        n = stack.pop()
        order.append(n)
        kids = list(getattr(n, 'children', None) or [])
        if any(c.parent is not n for c in kids):
            return False
        if isinstance(n, ElementNode):
            extra = list(n.namespace_nodes) + list(n.attributes)
            if any(c.parent is not n for c in extra):
                return False
            # namespace and attribute nodes come after their element and before its children
            stack.extend(reversed(kids))
            stack.extend(reversed(extra))
        else:
            stack.extend(reversed(kids))
    pos = [n.position for n in order]
    if any(a >= b for a, b in zip(pos, pos[1:])):
        return False
    r = [c for c in root.children if isinstance(c, ElementNode)][0]
    if len(r.attributes) != nattr or len(r.namespace_nodes) != nns + 1 or root.string_value != 'htl':
        return False
    sel = L(T['all_nodes'].evaluate(XPathContext(root)))
    want = [n for n in order if not isinstance(n, NamespaceNode)]
    if len(sel) != len(want) or any(a is not b for a, b in zip(sel, want)):
        return False
    k = len(want)
    return L(T['before_all'].evaluate(XPathContext(root))) == [i < j for i in range(k) for j in range(k)]


# --- added after round-3 seeded changes: an lxml root ELEMENT (not the ElementTree) that has document-level siblings; except/intersect ----

@ob(budget=200, bound='lxml root Element with 0..1 comment before, 0..1 comment after and 0..1 PI after it (counts chosen by the solver), '
                      'fragment in {None, True, False}: a document node exists iff fragment is False or (None and the element has a '
                      'document-level sibling on either side); its children are all the siblings in document order; never with fragment=True',
    funcs=[TB + ':build_lxml_node_tree', TB + ':get_node_tree'])
def lxml_element_root_with_siblings(nb: int, na: int, pa: int, fi: int) -> bool:
    """
    pre: 0 <= nb <= 1 and 0 <= na <= 1 and 0 <= pa <= 1 and 0 <= fi <= 2
    post: _
    """
    if LX is None:
        return True
    nb, na, pa, fi = _pick(nb, 1), _pick(na, 1), _pick(pa, 1), _pick(fi, 2)
    elem = LX.fromstring('<!--b-->' * nb + '<r>h<x/></r>' + '<!--a-->' * na + '<?s z?>' * pa)
    root = get_node_tree(elem, fragment=FRAGMENTS[fi])
    want_doc = FRAGMENTS[fi] is False or (FRAGMENTS[fi] is None and nb + na + pa > 0)
    if not want_doc:
        return isinstance(root, ElementNode) and root.elem is elem and root.parent is None
    if not isinstance(root, DocumentNode):
        return False
    kinds = [type(c).__name__ for c in root.children]
    if kinds != ['CommentNode'] * nb + ['EtreeElementNode'] + ['CommentNode'] * na + ['ProcessingInstructionNode'] * pa:
        return False
    pos = [root.position] + [c.position for c in root.children]
    if any(a >= b for a, b in zip(pos, pos[1:])):
        return False
    sel = L(T['all_nodes'].evaluate(XPathContext(root)))
    return len(sel) == 1 + nb + na + pa + 3 and L(P31.parse('/* << /node()[last()]').evaluate(XPathContext(root))) == [na + pa > 0]


T.update(parse_all({'except_empty': '(//b, //a, //b) except ()', 'except_dup': 'count((//a, //a) except ())', 'intersect_unsorted': '(//b, //a) intersect (//a, //b, //a)',
                    'except_self': '(//b, //a) except //b', 'union_empty': '(//b, //a) union ()'}))


@ob(budget=300, bound='4-element tree r(x(y), z): tags over {a,b,c}: union/intersect/except whose operands are out of document order, contain '
                      'duplicates or are empty return sorted, duplicate-free node lists',
    funcs=['elementpath/xpath2/_xpath2_operators.py:select__intersect_and_except_operators', 'elementpath/xpath2/_xpath2_operators.py:union'])
def set_operators_unsorted_operands(t0: str, t1: str, t2: str, t3: str) -> bool:
    """
    pre: all(len(t) == 1 and 'a' <= t <= 'c' for t in (t0, t1, t2, t3))
    post: _
    """
    tags = [t0, t1, t2, t3]
    els = _tree(tags, False, False)
    doc = ET.ElementTree(els[0])
    ev = lambda k: _idx(L(T[k].evaluate(XPathContext(doc))), els)   # noqa: E731
    A = [i for i in range(4) if tags[i] == 'a']
    B = [i for i in range(4) if tags[i] == 'b']
    AB = sorted(A + B)
    return ev('except_empty') == AB and L(T['except_dup'].evaluate(XPathContext(doc))) == [len(A)] and ev('intersect_unsorted') == AB \
        and ev('except_self') == A and ev('union_empty') == AB


# --- added after a defect reported during round 3: tails of comment / PI children are part of the string value ----------------------------

@ob(budget=200, bound='element r with text, a comment and a processing instruction (each present or not) whose tails and the text of r are '
                      'strings of length <= 1 or None, root kind Element / ElementTree: string value = concatenation of the text nodes = text + tails',
    funcs=['elementpath/etree.py:etree_iter_strings', 'elementpath/xpath_nodes.py:string_value'])
def comment_and_pi_tails_in_string_value(t0: Optional[str], t1: Optional[str], t2: Optional[str], wc: bool, wp: bool, doc: bool) -> bool:
    """
    pre: all(t is None or len(t) <= 1 for t in (t0, t1, t2))
    post: _
    """
    r = ET.Element('r')
    r.text = t0
    want = t0 or ''
    if wc:
        c = ET.Comment('c')
        c.tail = t1
        r.append(c)
        want += t1 or ''
    if wp:
        p = ET.ProcessingInstruction('p', 'q')
        p.tail = t2
        r.append(p)
        want += t2 or ''
    root = build_node_tree(ET.ElementTree(r) if doc else r)
    elem = root if isinstance(root, ElementNode) else [c for c in root.children if isinstance(c, ElementNode)][0]
    return root.string_value == want and elem.string_value == want and _texts(elem) == want


# --- added after round-4 seeded changes: a comment / PI object OF THE INPUT TREE passed as context item or variable is that tree's node ------

T.update(parse_all({'ident_item': '(. is (/r/node())[$k], count(. | (/r/node())[$k]), root(.) is /, count(../node()), . << /r/b, count((., /r/b) intersect .))',
                    'ident_var': '($v is (/r/node())[$k], count($v | (/r/node())[$k]), root($v) is /, count($v/../node()), $v << /r/b)'}))


@ob(budget=200, bound='element r with a comment, a processing instruction and an element b (order chosen by the solver: comment first or PI first); the '
                      'comment or the PI OBJECT is passed as context item or as a variable: it is identical to the node selected by a path '
                      '(is, |, intersect, root(), parent axis, <<)',
    funcs=['elementpath/xpath_context.py:XPathContext.get_context_item', TB + ':build_node_tree'])
def tree_objects_as_items_keep_identity(pi_first: bool, use_pi: bool, as_var: bool) -> bool:
    """
    post: _
    """
    r = ET.Element('r')
    c = ET.Comment('c')
    p = ET.ProcessingInstruction('p', 'q')
    for n in ((p, c) if pi_first else (c, p)):
        r.append(n)
    b = ET.SubElement(r, 'b')
    obj = p if use_pi else c
    k = 1 if (use_pi == pi_first) else 2
    doc = ET.ElementTree(r)
    if as_var:
        got = L(T['ident_var'].evaluate(XPathContext(doc, variables={'v': obj, 'k': k})))
        return got == [True, 1, True, 3, True]
    got = L(T['ident_item'].evaluate(XPathContext(doc, item=obj, variables={'k': k})))
    return got == [True, 1, True, 3, True, 1]
