"""C07 — comparisons, effective boolean value and logic (DESIGN §4 C07)."""
from decimal import Decimal
from harness.common import ob, define, parse_all, ev, ElementPathError, err_code, XPathContext, P1, P2, P31
from elementpath.datatypes import UntypedAtomic, AnyURI, DayTimeDuration, YearMonthDuration

B = 'elementpath/xpath_tokens/base.py'
O2 = 'elementpath/xpath2/_xpath2_operators.py'
INFO = dict(
    level='other',
    explanation='Bounded symbolic execution (CrossHair + z3) of the comparison operators through token.evaluate: operand VALUES are '
                'solver variables (unbounded integers, strings of length <= 2, sequences of length 0..2), operand TYPES and the twelve '
                'operators are enumerated.  General comparisons are compared with the existential definition over value comparisons, '
                'value comparisons with the order of the value space, error cells with XPTY0004, EBV and and/or/not/if with Boolean '
                'algebra over the F&O EBV table.',
    assumptions=['operand types enumerated: integer, string, untypedAtomic, boolean, anyURI (durations and date/time: bug-hunting)',
                 'error-outcome cells bound their operands (messages format the operands, which realises them)',
                 'inexact doubles, DoubleProxy10 tolerance and collations are outside the claim'])
OPS = {'eq': lambda a, b: a == b, 'ne': lambda a, b: a != b, 'lt': lambda a, b: a < b, 'le': lambda a, b: a <= b,
       'gt': lambda a, b: a > b, 'ge': lambda a, b: a >= b}
GEN = dict(zip(OPS, ['=', '!=', '<', '<=', '>', '>=']))
TV = {k: P31.parse('$a %s $b' % k) for k in OPS}
TG = {k: P31.parse('$A %s $B' % g) for k, g in GEN.items()}
TG1 = {k: P1.parse('$A %s $B' % g) for k, g in GEN.items()}
T = parse_all({'ebv': 'boolean($S)', 'dm': 'not($a and $b) = (not($a) or not($b))', 'if': 'if ($c) then $x else $y',
               'andor': '(($a and $b), ($a or $b), not($a))', 'ebv2': 'boolean(($x, $y))', 'ebvnode': 'boolean($S)'})


def _one(r):
    return r[0] if isinstance(r, list) and len(r) == 1 else r


def _val(k, a, b):
    return _one(TV[k].evaluate(XPathContext(item=1, variables={'a': a, 'b': b})))


def _gen(k, A, Bv, table=TG):
    return _one(table[k].evaluate(XPathContext(item=1, variables={'A': A, 'B': Bv})))


@ob(budget=60, bound='a, b: all integers; six value comparisons', funcs=[O2 + ':eq ne lt le gt ge', B + ':get_operands'])
def value_int(a: int, b: int) -> bool:
    """
    post: _
    """
    return all(_val(k, a, b) == f(a, b) for k, f in OPS.items())


@ob(budget=120, bound='a, b: strings of length <= 2 (code point order)', funcs=[O2 + ':eq ne lt le gt ge'])
def value_str(a: str, b: str) -> bool:
    """
    pre: len(a) <= 2 and len(b) <= 2
    post: _
    """
    return all(_val(k, a, b) == f(a, b) for k, f in OPS.items())


@ob(budget=90, bound='a, b, c: all integers: reflexive, antisymmetric, transitive, total; lt iff not ge', funcs=[O2 + ':value comparisons'])
def value_order_laws(a: int, b: int, c: int) -> bool:
    """
    post: _
    """
    le = lambda x, y: _val('le', x, y)   # noqa: E731
    return le(a, a) and (not (le(a, b) and le(b, a)) or _val('eq', a, b)) and (not (le(a, b) and le(b, c)) or le(a, c)) \
        and (le(a, b) or le(b, a)) and _val('lt', a, b) == (not _val('ge', a, b)) and _val('ne', a, b) == (not _val('eq', a, b))


_ERR = '''
@ob(budget=90, bound='{bound}', funcs=[O2 + ':value comparisons', B + ':get_operands'])
def value_error_{name}(a: {ta}, b: {tb}) -> bool:
    """
    pre: {pre}
    post: _
    """
    for k in OPS:
        for x, y in ((a, b), (b, a)):
            try:
                _val(k, x, y)
                return False
            except ElementPathError as e:
                if err_code(e) != 'XPTY0004':
                    return False
    return True
'''
define(_ERR.format(name='int_str', ta='int', tb='str', pre="-3 <= a <= 3 and len(b) == 1 and 'a' <= b <= 'c'",
                   bound='integer in [-3,3] vs one-character string in a..c: XPTY0004 for all six operators, both orders'), globals())
define(_ERR.format(name='bool_int', ta='bool', tb='int', pre='-3 <= b <= 3',
                   bound='boolean vs integer in [-3,3]: XPTY0004 for all six operators, both orders'), globals())
define(_ERR.format(name='bool_str', ta='bool', tb='str', pre="len(b) == 1 and 'a' <= b <= 'c'",
                   bound='boolean vs one-character string in a..c: XPTY0004 for all six operators, both orders'), globals())


@ob(budget=60, bound='a, b booleans: false < true', funcs=[O2 + ':value comparisons'])
def value_bool(a: bool, b: bool) -> bool:
    """
    post: _
    """
    return all(_val(k, a, b) == f(a, b) for k, f in OPS.items())


@ob(budget=200, bound='A: 0..2 integers, B: 0..2 integers (all unbounded): general comparison = exists pair', funcs=[B + ':iter_comparison_data', 'elementpath/xpath1/_xpath1_operators.py:= != < <= > >='])
def general_int(a0: int, a1: int, n: int, b0: int, b1: int, m: int) -> bool:
    """
    pre: 0 <= n <= 2 and 0 <= m <= 2
    post: _
    """
    A = [a0, a1][:n]
    Bv = [b0, b1][:m]
    return all(_gen(k, A, Bv) == any(f(x, y) for x in A for y in Bv) for k, f in OPS.items())


@ob(budget=200, bound='A: 0..2 strings, B: 0..1 strings of length <= 1', funcs=[B + ':iter_comparison_data'])
def general_str(a0: str, a1: str, n: int, b0: str, m: int) -> bool:
    """
    pre: 0 <= n <= 2 and 0 <= m <= 1 and len(a0) <= 1 and len(a1) <= 1 and len(b0) <= 1
    post: _
    """
    A = [a0, a1][:n]
    Bv = [b0][:m]
    return all(_gen(k, A, Bv) == any(f(x, y) for x in A for y in Bv) for k, f in OPS.items())


@ob(budget=60, tbudget=600, kind='hunt', bound='untypedAtomic (decimal digits of an integer in [-99,99]) vs 1..2 unbounded integers: untyped is cast to double (float(): bug-hunting)',
    funcs=[B + ':iter_comparison_data', 'elementpath/datatypes/untyped.py'])
def general_untyped_int(s0: int, b0: int, b1: int) -> bool:
    """
    pre: -99 <= s0 <= 99
    post: _
    """
    A = [UntypedAtomic(str(s0))]
    return all(_gen(k, A, [b0, b1]) == (f(s0, b0) or f(s0, b1)) for k, f in OPS.items())


@ob(budget=200, bound='untypedAtomic vs string, both of length <= 2: untyped is cast to string', funcs=[B + ':iter_comparison_data'])
def general_untyped_str(a: str, b: str) -> bool:
    """
    pre: len(a) <= 2 and len(b) <= 2
    post: _
    """
    # the symbolic string stays on the right: CrossHair's str proxy raises TypeError instead of returning NotImplemented when it is
    # the LEFT operand of a comparison with a foreign class, so the reflected UntypedAtomic method would never run (tool artefact)
    return all(_gen(k, [UntypedAtomic(a)], [b]) == f(a, b) for k, f in OPS.items())


@ob(budget=60, tbudget=600, kind='hunt', bound='XPath 1.0 parser: A: 0..2, B: 0..2 integers up to 2^50 (converted to doubles: bug-hunting)', funcs=['elementpath/xpath1/_xpath1_operators.py'])
def general_int_xpath1(a0: int, a1: int, n: int, b0: int, b1: int, m: int) -> bool:
    """
    pre: 0 <= n <= 2 and 0 <= m <= 2 and all(-2**50 <= v <= 2**50 for v in (a0, a1, b0, b1))
    post: _
    """
    A = [a0, a1][:n]
    Bv = [b0, b1][:m]
    return all(_gen(k, A, Bv, TG1) == any(f(x, y) for x in A for y in Bv) for k, f in OPS.items())


@ob(budget=120, kind='hunt', bound='(not exhausted within 260 s: bug-hunting) anyURI vs string / anyURI, ASCII letters, length <= 2', funcs=['elementpath/datatypes/uri.py', O2])
def value_anyuri(a: str, b: str) -> bool:
    """
    pre: len(a) <= 2 and len(b) <= 2 and all('A' <= c <= 'z' and c.isalpha() for c in a + b)
    post: _
    """
    return _val('eq', AnyURI(a), b) == (a == b) and _val('lt', AnyURI(a), AnyURI(b)) == (a < b)


@ob(budget=90, bound='EBV of: unbounded integer, string of length <= 2, empty sequence, sequences of 2 atomics (FORG0006)',
    funcs=[B + ':boolean_value', 'fn:boolean'])
def ebv_table(x: int, s: str, y: int) -> bool:
    """
    pre: len(s) <= 2 and -3 <= y <= 3 and -3 <= x <= 3 or (len(s) <= 2 and y == 0)
    post: _
    """
    if ev(T['ebv'], S=x) != [x != 0] or ev(T['ebv'], S=s) != [len(s) > 0] or ev(T['ebv'], S=[]) != [False]:
        return False
    if ev(T['ebv'], S=True) != [True] or ev(T['ebv'], S=False) != [False]:
        return False
    try:
        ev(T['ebv2'], x=x, y=y)
        return False
    except ElementPathError as e:
        return err_code(e) == 'FORG0006'


@ob(budget=60, bound='EBV of one unbounded integer', funcs=[B + ':boolean_value'])
def ebv_int(x: int) -> bool:
    """
    post: _
    """
    return ev(T['ebv'], S=x) == [x != 0]


@ob(budget=120, bound='a: unbounded integer, b: string of length <= 1, c: boolean: and/or/not/if over EBV; De Morgan',
    funcs=['elementpath/xpath1/_xpath1_operators.py:and or', 'fn:not', O2 + ':if'])
def logic_over_ebv(a: int, b: str, c: bool, x: int, y: int) -> bool:
    """
    pre: len(b) <= 1
    post: _
    """
    ea, eb = a != 0, len(b) > 0
    return ev(T['dm'], a=a, b=b) == [True] and ev(T['andor'], a=a, b=b) == [ea and eb, ea or eb, not ea] \
        and ev(T['if'], c=c, x=x, y=y) == [x if c else y] and ev(T['if'], c=a, x=x, y=y) == [x if ea else y]


@ob(budget=60, tbudget=600, kind='hunt', bound='dayTimeDuration seconds and yearMonthDuration months in [-1000, 1000]: order = numeric order, eq implies equal hash (Decimal.quantize in the constructor: bug-hunting)',
    funcs=['elementpath/datatypes/datetime.py:Duration.__lt__/__eq__'])
def duration_order(s1: int, s2: int, m1: int, m2: int) -> bool:
    """
    pre: -1000 <= s1 <= 1000 and -1000 <= s2 <= 1000 and -1000 <= m1 <= 1000 and -1000 <= m2 <= 1000
    post: _
    """
    a, b = DayTimeDuration(s1), DayTimeDuration(s2)
    c, d = YearMonthDuration(m1), YearMonthDuration(m2)
    return _val('lt', a, b) == (s1 < s2) and _val('eq', a, b) == (s1 == s2) and _val('lt', c, d) == (m1 < m2) \
        and _val('ge', c, d) == (m1 >= m2)


@ob(budget=60, tbudget=600, kind='hunt', bound='exact half-integer doubles k/2 vs integers, |k| <= 2^40; NaN constant unequal to everything',
    funcs=[O2 + ':value comparisons'])
def value_double_exact(k: int, b: int) -> bool:
    """
    pre: -2**40 <= k <= 2**40 and -2**40 <= b <= 2**40
    post: _
    """
    x = k / 2
    nan = float('nan')
    return _val('lt', x, b) == (k < 2 * b) and _val('eq', x, b) == (k == 2 * b) and _val('eq', nan, b) is False \
        and _val('ne', nan, nan) is True and _val('lt', nan, b) is False


# --- added after seeded-change review: untypedAtomic vs boolean with padded lexical forms; EBV of sequences containing nodes ----

WORDS = ('true', 'false', '1', '0')
PADS = ('', ' ', chr(9), chr(10) + ' ')


@ob(budget=120, bound='untypedAtomic = pad + {true,false,1,0} + pad (pads from 4 XML-whitespace strings, chosen by the solver) vs boolean: all six general comparisons',
    funcs=['elementpath/datatypes/untyped.py:UntypedAtomic._operator (boolean branch)', B + ':iter_comparison_data'])
def general_untyped_boolean(w: int, pl: int, pr: int, b: bool) -> bool:
    """
    pre: 0 <= w <= 3 and 0 <= pl <= 3 and 0 <= pr <= 3
    post: _
    """
    u = UntypedAtomic(PADS[pl] + WORDS[w] + PADS[pr])
    val = WORDS[w] in ('true', '1')
    return all(_gen(k, [u], [b]) == f(val, b) for k, f in OPS.items()) and _gen('eq', [b], [u]) == (b == val)


from harness.common import pyet as _pyet   # noqa: E402
_ET = _pyet()
_DOC = _ET.ElementTree(_ET.fromstring('<r><a>1</a><b/></r>')) if hasattr(_ET, 'fromstring') else None
T_EBVN = {k: P31.parse(v) for k, v in {
    'atom_node': 'boolean(($x, /r))', 'node_atom': 'boolean((/r, $x))', 'and': '($x, /r/a) and true()', 'not': 'not(($x, /r/b))',
    'if': 'if (($x, /r)) then 1 else 2', 'node_only': 'boolean(/r/b)', 'empty_path': 'boolean(/r/zz)', 'pred': '(1, 2)[($x, /r)]'}.items()}


@ob(budget=120, bound='x: unbounded integer: EBV of (atomic, node) is FORG0006 through boolean/and/not/if/predicate; (node, atomic) and single nodes are true',
    funcs=[B + ':boolean_value', 'fn:boolean', 'fn:not', 'and', 'if'])
def ebv_with_nodes(x: int) -> bool:
    """
    post: _
    """
    def run(k):
        try:
            return L(T_EBVN[k].evaluate(XPathContext(_DOC, variables={'x': x})))
        except ElementPathError as e:
            return err_code(e)
    from harness.common import L
    return run('atom_node') == 'FORG0006' and run('and') == 'FORG0006' and run('not') == 'FORG0006' and run('if') == 'FORG0006' \
        and run('pred') == 'FORG0006' and run('node_atom') == [True] and run('node_only') == [True] and run('empty_path') == [False]


# --- added after round-2 seeded changes: date/time ordering when only one operand has a timezone (implicit UTC) -------------------

import datetime as _dtm  # noqa: E402
from elementpath.datatypes import DateTime as _DateTime, Timezone as _Timezone  # noqa: E402
OFFS = (-840, -300, -60, 0, 60, 330, 840)


@ob(budget=60, tbudget=600, kind='hunt', bound='two xs:dateTime values on 2000-01-01, hours symbolic, one with a timezone offset from 7 values chosen by the solver and one without: converse laws and instant order with implicit UTC (datetime model: bug-hunting)',
    funcs=['elementpath/datatypes/datetime.py:AbstractDateTime._compare'])
def datetime_one_sided_timezone(h1: int, h2: int, oi: int) -> bool:
    """
    pre: 0 <= h1 <= 23 and 0 <= h2 <= 23 and 0 <= oi <= 6
    post: _
    """
    off = OFFS[oi]
    a = _DateTime(2000, 1, 1, h1)                                   # no timezone: implicit UTC
    b = _DateTime(2000, 1, 1, h2, tzinfo=_Timezone(_dtm.timedelta(minutes=off)))
    ia, ib = h1 * 60, h2 * 60 - off                                  # instants in minutes, UTC
    return _val('lt', a, b) == (ia < ib) and _val('gt', b, a) == (ia < ib) and _val('eq', a, b) == (ia == ib) \
        and _val('eq', b, a) == (ia == ib) and _val('ge', a, b) == (ia >= ib) and _val('le', b, a) == (ia >= ib)


# --- added after round-2 seeded changes: xs:double vs xs:decimal pairs with values that are NOT exact in binary (decimal -> double) ------

DBL = (0.1, 1.1, 3.3, 0.5, 2.675, -0.1, 0.30000000000000004, 1e-7)
DEC = tuple(Decimal(s) for s in ('0.1', '1.1', '3.3', '0.5', '2.675', '-0.1', '0.3', '0.1000000000000000055511151231257827',
                                 '0.30000000000000004', '0.0000001'))


@ob(budget=200, kind='hunt', bound='x from a table of 8 doubles (6 inexact in binary), d from a table of 10 decimals, indices and operand order '
                                   'chosen by the solver: the six value comparisons and the six general comparisons compare x with the '
                                   'double nearest to d (decimal promoted to double), in both operand orders (table of values: bug-hunting)',
    funcs=[B + ':iter_comparison_data', B + ':get_operands', O2 + ':value comparisons'])
def double_decimal_promotion(i: int, j: int, swap: bool) -> bool:
    """
    pre: 0 <= i < 8 and 0 <= j < 10
    post: _
    """
    x, d = DBL[i], DEC[j]
    y = float(d)
    for k, f in OPS.items():
        want = f(y, x) if swap else f(x, y)
        a, b = (d, x) if swap else (x, d)
        if _val(k, a, b) is not want or _gen(k, [a], [b]) is not want or _gen(k, [a, a], [b]) is not want:
            return False
    return True


# --- added after round-3 seeded changes: octet order of binaries (XPath 3.1) and the unordered base type xs:duration -------------------

from elementpath.datatypes import HexBinary, Base64Binary, Duration  # noqa: E402
import base64 as _b64  # noqa: E402
OCTETS = (0x00, 0x41, 0xFF)


def _octets(i0, i1, n):
    """concrete byte string of length n <= 2 over OCTETS on each path"""
    out = []
    for i in (i0, i1)[:n]:
        out.append(OCTETS[[k for k in range(3) if k == i][0]])
    return bytes(out)


@ob(budget=300, bound='two binaries of 0..2 octets each over 3 octet values (lengths and octets chosen by the solver), hexBinary and base64Binary '
                      'with the XPath 3.1 ordering: the six value comparisons = the order of the octet strings (a proper prefix is less)',
    funcs=['elementpath/datatypes/binary.py:AbstractBinary.__lt__/__le__/__gt__/__ge__/__eq__', O2 + ':value comparisons'])
def value_binary_octet_order(a0: int, a1: int, n: int, b0: int, b1: int, m: int, b64: bool) -> bool:
    """
    pre: 0 <= n <= 2 and 0 <= m <= 2 and all(0 <= i <= 2 for i in (a0, a1, b0, b1))
    post: _
    """
    n = 0 if n == 0 else 1 if n == 1 else 2
    m = 0 if m == 0 else 1 if m == 1 else 2
    x, y = _octets(a0, a1, n), _octets(b0, b1, m)
    if b64:
        a, b = Base64Binary(_b64.b64encode(x).decode(), ordered=True), Base64Binary(_b64.b64encode(y).decode(), ordered=True)
    else:
        a, b = HexBinary(x.hex().upper(), ordered=True), HexBinary(y.hex().upper(), ordered=True)
    return all(_val(k, a, b) is f(x, y) for k, f in OPS.items())


@ob(budget=240, bound='two xs:duration values (base type) with months and seconds in [-1, 1] (same sign): eq/ne compare both components, lt/le/gt/ge raise '
                      'XPTY0004 (the base type is not ordered); through the general comparisons as well',
    funcs=[O2 + ':evaluate__value_comparison_operators', 'elementpath/datatypes/datetime.py:Duration'])
def duration_base_type_unordered(m1: int, s1: int, m2: int, s2: int) -> bool:
    """
    pre: all(-1 <= v <= 1 for v in (m1, s1, m2, s2)) and m1 * s1 >= 0 and m2 * s2 >= 0
    post: _
    """
    a, b = Duration(months=m1, seconds=s1), Duration(months=m2, seconds=s2)
    same = m1 == m2 and s1 == s2
    if _val('eq', a, b) is not same or _val('ne', a, b) is same:
        return False
    for k in ('lt', 'le', 'gt', 'ge'):
        try:
            _val(k, a, b)
            return False
        except ElementPathError as e:
            if err_code(e) != 'XPTY0004':
                return False
    return True


# --- added after a defect reported during round 4: XPath 1.0 general comparisons between strings (node string-values) and numbers --------

S1 = ('2', ' 2 ', 'x', '', '-1.5', '10')    # (no exponent form: the XPath 1.0 grammar has none, libxml2 accepts it)


def _num1(s):
    """XPath 1.0 number(): optional minus, digits with optional fraction, surrounded by white space; anything else is NaN"""
    t = s.strip(' ' + chr(9) + chr(10) + chr(13))
    import re as _re
    return float(t) if _re.fullmatch(r'-?(\d+(\.\d*)?|\.\d+)', t) else float('nan')


@ob(budget=200, bound='XPath 1.0 parser: left operand a string from a table of 6 followed by the string x (numeric, padded, non-numeric, empty, negative decimal, '
                      'two digits; indices chosen by the solver), right operand an integer in [-2, 2], in both operand orders: the six general '
                      'comparisons convert the strings with number() (NaN when not a number) and are true iff some pair satisfies the comparison',
    funcs=[B + ':iter_comparison_data (compatibility mode, version 1.0)', 'elementpath/xpath1/_xpath1_operators.py:evaluate__comparison_operators'])
def general_string_number_xpath1(i0: int, b: int, swap: bool) -> bool:
    """
    pre: 0 <= i0 <= 5 and -2 <= b <= 2
    post: _
    """
    A = [S1[[k for k in range(6) if k == i0][0]], 'x']
    b = [k for k in range(-2, 3) if k == b][0]
    nums = [_num1(s) for s in A]
    for k, f in OPS.items():
        if swap:
            got = _gen(k, [b], A, TG1)
            want = any(f(float(b), x) for x in nums)
        else:
            got = _gen(k, A, [b], TG1)
            want = any(f(x, float(b)) for x in nums)
        if got is not want:
            return False
    return True


# --- added after round-4 seeded changes: sub-millisecond durations; timezone offsets below one hour (negative too) in comparisons -----------

from elementpath.datatypes import DateTime as _DT7, Timezone as _TZ7  # noqa: E402
import datetime as _dtm  # noqa: E402
FRACS = ('0.0001', '0.0007', '0.000001', '0.000002', '0.5')
TV_STR = {k: P31.parse('xs:dayTimeDuration($a) %s xs:dayTimeDuration($b)' % k) for k in OPS}
TV_DT = {k: P31.parse('xs:dateTime($a) %s xs:dateTime($b)' % k) for k in OPS}
OFFS_LEX = ('-00:30', '+00:30', '-00:01', '+00:01', '-00:59', 'Z', '-01:00', '+14:00')
_OFFMIN = {'-00:30': -30, '+00:30': 30, '-00:01': -1, '+00:01': 1, '-00:59': -59, 'Z': 0, '-01:00': -60, '+14:00': 840}


@ob(budget=300, bound='two xs:dayTimeDuration values PT<f>S (the first optionally negated) with f from a table of 5 fractions down to one microsecond (indices and '
                      'signs chosen by the solver): the six value comparisons follow the numeric order of the seconds',
    funcs=['elementpath/datatypes/datetime.py:Duration._compare_durations', O2 + ':value comparisons'])
def duration_order_subsecond(i: int, j: int, ni: bool) -> bool:
    """
    pre: 0 <= i <= 4 and 0 <= j <= 4
    post: _
    """
    fa, fb = FRACS[[k for k in range(5) if k == i][0]], FRACS[[k for k in range(5) if k == j][0]]
    a, b = ('-' if ni else '') + 'PT' + fa + 'S', 'PT' + fb + 'S'
    x, y = Decimal(fa) * (-1 if ni else 1), Decimal(fb)
    for k, f in OPS.items():
        r = TV_STR[k].evaluate(XPathContext(item=1, variables={'a': a, 'b': b}))
        if _one(r) is not f(x, y):
            return False
    return True


@ob(budget=200, bound='xs:dateTime 2000-01-01T12:00:00 with two timezone designators from a table of 8 (sub-hour negative and positive offsets, Z, -01:00, '
                      '+14:00; indices chosen by the solver): the six value comparisons order the values as instants (later offset = earlier instant)',
    funcs=['elementpath/datatypes/datetime.py:Timezone.fromstring', 'elementpath/datatypes/datetime.py:AbstractDateTime._compare'])
def timezone_offsets_in_comparisons(i: int, j: int) -> bool:
    """
    pre: 0 <= i <= 7 and 0 <= j <= 7
    post: _
    """
    oa, ob_ = OFFS_LEX[[k for k in range(8) if k == i][0]], OFFS_LEX[[k for k in range(8) if k == j][0]]
    a, b = '2000-01-01T12:00:00' + oa, '2000-01-01T12:00:00' + ob_
    x, y = -_OFFMIN[oa], -_OFFMIN[ob_]          # instant in minutes relative to 12:00Z
    for k, f in OPS.items():
        r = TV_DT[k].evaluate(XPathContext(item=1, variables={'a': a, 'b': b}))
        if _one(r) is not f(x, y):
            return False
    return True


TV_DTY = {k: P31.parse('xs:dateTime($a) %s xs:dateTime($b)' % k) for k in OPS}


@ob(budget=450, bound='a = 2000-12-31T23:00:00 and b = 2001-01-01T01:00:00 (or the reverse) with two timezone designators from the table of 8 (indices chosen '
                      'by the solver): the six value comparisons order the values as instants although the local years differ',
    funcs=['elementpath/datatypes/datetime.py:AbstractDateTime._compare', 'elementpath/datatypes/datetime.py:AbstractDateTime.todelta'])
def year_boundary_comparisons(i: int, j: int, swap: bool) -> bool:
    """
    pre: 0 <= i <= 7 and 0 <= j <= 7
    post: _
    """
    oa, ob_ = OFFS_LEX[[k for k in range(8) if k == i][0]], OFFS_LEX[[k for k in range(8) if k == j][0]]
    a, b = '2000-12-31T23:00:00' + oa, '2001-01-01T01:00:00' + ob_
    x, y = -60 - _OFFMIN[oa], 60 - _OFFMIN[ob_]          # instants in minutes relative to 2001-01-01T00:00Z
    if swap:
        a, b, x, y = b, a, y, x
    for k, f in OPS.items():
        r = TV_DTY[k].evaluate(XPathContext(item=1, variables={'a': a, 'b': b}))
        if _one(r) is not f(x, y):
            return False
    return True


# --- added after the round-4 baseline reports: durations longer than datetime.timedelta can hold ----------------------------------------------

TV_YM = {k: P31.parse('xs:yearMonthDuration($a) %s xs:yearMonthDuration($b)' % k) for k in OPS}
LONG_DAYS = (0, 1, 999999999, 1000000000, 1000000001, 10 ** 12, 5 * 10 ** 12)
LONG_YEARS = (0, 1, 2737908, 3000000, 3000001, 10 ** 8)


_LONG = '''
@ob(budget=300, family='duration-any-length', bound='two {kind} values of {vals}, the first {neg}, the second optionally negated (indices and sign chosen by the '
                      'solver, text concrete on each path): the six value comparisons follow the order of the lengths and raise nothing',
    funcs=['elementpath/datatypes/datetime.py:Duration._compare_durations', 'elementpath/helpers.py:months2days', O2 + ':value comparisons'])
def duration_order_any_length_{name}(i: int, j: int, nj: bool) -> bool:
    \"\"\"
    pre: 0 <= i <= {top} and 0 <= j <= {top}
    post: _
    \"\"\"
    return _long_order(i, j, {ni}, nj, {ym})
'''


def _long_order(i, j, ni, nj, ym):
    tab = LONG_YEARS if ym else LONG_DAYS
    i, j = [k for k in range(7) if k == i][0], [k for k in range(7) if k == j][0]
    x, y = tab[i] * (-1 if ni else 1), tab[j] * (-1 if nj else 1)
    fmt = 'P%dY' if ym else 'P%dD'
    a, b = ('-' if x < 0 else '') + fmt % abs(x), ('-' if y < 0 else '') + fmt % abs(y)
    for k, f in OPS.items():
        r = (TV_YM if ym else TV_STR)[k].evaluate(XPathContext(item=1, variables={'a': a, 'b': b}))
        if _one(r) is not f(x, y):
            return False
    return True


for _ym in (False, True):
    for _ni in (False, True):
        define(_LONG.format(name=('ym' if _ym else 'dt') + ('_neg' if _ni else '_pos'), ym=_ym, ni=_ni, top=5 if _ym else 6,
                            kind='xs:yearMonthDuration' if _ym else 'xs:dayTimeDuration', neg='negated' if _ni else 'positive',
                            vals='0, 1, 2737908, 3000000, 3000001 or 10^8 years' if _ym else '0, 1, 999999999, 10^9, 10^9+1, 10^12 or 5*10^12 days'), globals())


# --- added after the round-4 baseline reports: comparisons use the implicit timezone of the dynamic context, as subtraction does --------------

_GEN = {'eq': '=', 'ne': '!=', 'lt': '<', 'le': '<=', 'gt': '>', 'ge': '>='}
T_ITZ = {k: P31.parse('($z %s $d, $d %s $z, $z %s $d, $t %s $u)' % (k, k, _GEN[k], k)) for k in OPS}
T_ITZ_SUB = P31.parse('$z - $d')


@ob(budget=300, bound='z = 2000-01-01T12:00:00Z, d = 2000-01-01T<h>:00:00 without timezone for h from {2, 7, 12, 17, 22}, context timezone from {-05:00, +05:00, Z, '
                      'none} (indices chosen by the solver): the six value comparisons in both operand orders and the general comparisons order the two values as '
                      'instants with d in the implicit timezone (UTC when the context has none), in agreement with the sign of z - d; xs:time likewise; the '
                      'caller\'s value keeps having no timezone',
    funcs=[O2 + ':evaluate__value_comparison_operators', 'elementpath/xpath_tokens/base.py:XPathToken.get_comparison_data',
           'elementpath/datatypes/datetime.py:AbstractDateTime._compare'])
def implicit_timezone_in_comparisons(hi: int, oi: int) -> bool:
    """
    pre: 0 <= hi <= 4 and 0 <= oi <= 3
    post: _
    """
    h = (2, 7, 12, 17, 22)[[k for k in range(5) if k == hi][0]]
    off = (-300, 300, 0, None)[[k for k in range(4) if k == oi][0]]
    z = _DT7(2000, 1, 1, 12, 0, 0, tzinfo=_TZ7(_dtm.timedelta(0)))
    d = _DT7(2000, 1, 1, h, 0, 0)
    from elementpath.datatypes import Time as _T7
    t, u = _T7(12, 0, 0, tzinfo=_TZ7(_dtm.timedelta(0))), _T7(h, 0, 0)
    tz = None if off is None else _TZ7(_dtm.timedelta(minutes=off))
    x, y = 12 * 60, h * 60 - (off or 0)            # the two instants in minutes of that day, UTC
    v = {'z': z, 'd': d, 't': t, 'u': u}
    for k, f in OPS.items():
        r = T_ITZ[k].evaluate(XPathContext(item=1, variables=v, timezone=tz))
        if r != [f(x, y), f(y, x), f(x, y), f(x, y)]:
            return False
    diff = T_ITZ_SUB.evaluate(XPathContext(item=1, variables=v, timezone=tz))
    diff = diff[0] if isinstance(diff, list) else diff
    return diff.seconds == (x - y) * 60 and d.tzinfo is None and u.tzinfo is None and str(d) == '2000-01-01T%02d:00:00' % h


# --- added after the round-4 baseline reports: comparisons raise XPath errors only; untyped NaN / INF against a decimal are doubles -----------

from elementpath.datatypes import UntypedAtomic as _UA7, QName as _QN7  # noqa: E402
_GOPS = {'eq': '=', 'ne': '!=', 'lt': '<', 'le': '<=', 'gt': '>', 'ge': '>='}
T_GEN7 = {k: (P31.parse('$a %s $b' % g), P31.parse('$b %s $a' % g), P31.parse('$a %s $b' % k)) for k, g in _GOPS.items()}
UNTYPED7 = ('nan', 'Infinity', 'x', '', 'x:a', '12:00:00', 'NaN', 'INF', '-INF', '1.50', ' 2 ')
_PAIRS7 = (tuple((_UA7(t), Decimal('1.5')) for t in UNTYPED7), tuple((_UA7(t), _QN7('', 'a')) for t in UNTYPED7), ((10 ** 400, 1.0),) * 11)
_U_AS_DOUBLE = {'NaN': float('nan'), 'INF': float('inf'), '-INF': float('-inf'), '1.50': 1.5, ' 2 ': 2.0}


_CMPERR = '''
@ob(budget={budget}, kind={okind!r}, family='comparison-errors', bound={bound!r},
    funcs=['elementpath/datatypes/untyped.py:UntypedAtomic._operator', O2 + ':evaluate__value_comparison_operators', 'elementpath/xpath1/_xpath1_operators.py:evaluate__comparison_operators'])
def comparison_errors_are_xpath_errors_{name}(ui: int) -> bool:
    """
    pre: {lo} <= ui <= {top}
    post: _
    """
    return _cmp_errors(ui, {kind})
'''


def _cmp_errors(ui, kind):
    text = UNTYPED7[[k for k in range(11) if k == ui][0]]
    a, b = _PAIRS7[kind][[k for k in range(11) if k == ui][0]]
    for k, f in OPS.items():
        for j, tok in enumerate(T_GEN7[k]):
            try:
                r = _one(tok.evaluate(XPathContext(item=1, variables={'a': a, 'b': b})))
            except ElementPathError as e:
                if kind == 0 and j < 2 and text in _U_AS_DOUBLE:
                    return False
                if kind == 0 and j < 2 and err_code(e) != 'FORG0001':
                    return False
                continue
            if not isinstance(r, bool):
                return False
            if kind == 0 and j < 2:
                if text not in _U_AS_DOUBLE:
                    return False
                x = _U_AS_DOUBLE[text]
                if r is not (f(x, 1.5) if j == 0 else f(1.5, x)):
                    return False
    return True


for _kind, _name, _lo, _top, _what in ((0, 'decimal_invalid', 0, 5, 'untyped value from 6 texts that are not xs:double values (nan, Infinity, x, empty, x:a, 12:00:00; chosen by the solver) '
                                         'against xs:decimal 1.5: FORG0001 (the error path does not exhaust under CrossHair: bug-hunting)'),
                                        (0, 'decimal_double', 6, 10, 'untyped value from 5 texts that are xs:double values (NaN, INF, -INF, 1.50, " 2 "; chosen by the solver) against xs:decimal 1.5: '
                                         'compared as doubles (NaN unequal to everything, INF above, -INF below)'),
                                        (1, 'qname', 0, 10, 'untyped value from the same 11 texts (chosen by the solver) against xs:QName a'),
                                        (2, 'huge', 0, 0, 'the integer 10^400 against xs:double 1e0')):
    define(_CMPERR.format(name=_name, lo=_lo, top=_top, kind=_kind, budget=120 if _name == 'decimal_invalid' else 300,
                          okind='hunt' if _name == 'decimal_invalid' else 'main', bound=_what + ': the six general comparisons in both operand orders and the six value comparisons return a boolean or raise '
                          'an ElementPathError, never another exception'), globals())
