"""C06 — numeric operators and rounding functions (DESIGN §4 C06)."""
import math
from decimal import Decimal
from harness.common import ob, define, parse_all, ElementPathError, err_code, XPathContext

O1 = 'elementpath/xpath1/_xpath1_operators.py'
O2 = 'elementpath/xpath2/_xpath2_operators.py'
INFO = dict(
    level='other',
    explanation='Bounded symbolic execution (CrossHair + z3) of the real operator methods through token.evaluate with both operands '
                'as solver variables: xs:integer arithmetic is decided for ALL integers (unbounded z3 Ints); the rounding rule of '
                'helpers.round_number and the arithmetic cores of fn:round / round-half-to-even are decided for all rationals by an '
                'AST->z3 translation of the current source with the documented contract of Decimal.quantize as the only stub. '
                'Decimal/double operands through the evaluator are bug-hunting only (measured not exhaustible) and never counted.',
    assumptions=['xs:integer operands are Python ints supplied as variables; templates parsed concretely',
                 'IEEE rounding of inexact doubles, xs:float range clamps and overflow to INF are outside the claim',
                 'doubles appear only as exactly representable half-integers k/2 (real and IEEE arithmetic coincide)',
                 'E2 stubs: Decimal.quantize(Decimal(1), ROUND_HALF_UP/HALF_DOWN) = nearest integer, ties away from / toward zero'])
T = parse_all({'add': '$a + $b', 'sub': '$a - $b', 'mul': '$a * $b', 'div': '$a div $b', 'idiv': '$a idiv $b',
               'mod': '$a mod $b', 'neg': '-$a', 'pos': '+$a', 'abs': 'abs($a)', 'floor': 'floor($a)', 'ceil': 'ceiling($a)',
               'round': 'round($a)', 'rhe': 'round-half-to-even($a)', 'rhe2': 'round-half-to-even($a, $p)',
               'round2': 'round($a, $p)',
               'law': '$a = ($a idiv $b) * $b + ($a mod $b)', 'inst': '($a idiv $b) instance of xs:integer and '
               '($a mod $b) instance of xs:integer and ($a + $b) instance of xs:integer and ($a * $b) instance of xs:integer '
               'and ($a - $b) instance of xs:integer and (-$a) instance of xs:integer',
               'instdiv': '($a div $b) instance of xs:decimal and not(($a div $b) instance of xs:integer) or $a mod $b = 0'})


def _one(r):
    return r[0] if isinstance(r, list) and len(r) == 1 else r


def _ev(k, **v):
    return _one(T[k].evaluate(XPathContext(item=1, variables=v)))


def _trunc_div(a, b):
    q = abs(a) // abs(b)
    return q if (a >= 0) == (b >= 0) else -q


@ob(budget=60, bound='a, b: all integers', funcs=[O1 + ':+ - * unary-', 'abs'])
def int_ring(a: int, b: int) -> bool:
    """
    post: _
    """
    return _ev('add', a=a, b=b) == a + b and _ev('sub', a=a, b=b) == a - b and _ev('mul', a=a, b=b) == a * b \
        and _ev('neg', a=a) == -a and _ev('abs', a=a) == abs(a) and _ev('pos', a=a) == a


# Division of a symbolic integer by a *symbolic* integer is non-linear arithmetic: z3 answers `unknown` and CrossHair falls back to
# enumerating values (measured: 700 paths in 60 s, no verdict).  The divisor is therefore an enumerated dimension (one generated
# condition per constant divisor, dividend ranging over ALL integers: division by a constant is linear and is exhausted), a
# both-symbolic bounded condition covers the sign/exactness interplay for small operands, and the unbounded pair stays bug-hunting.
DIVISORS = (-7, -3, -2, -1, 1, 2, 3, 7)
_SRC = '''
@ob(budget=60, bound='a: all integers; b = {b}', funcs=[O1 + ':evaluate__mod_operator', O2 + ':evaluate__idiv_operator', '=', '*', '+'])
def int_mod_idiv_by_{n}(a: int) -> bool:
    """
    post: _
    """
    m = _ev('mod', a=a, b={b})
    q = _ev('idiv', a=a, b={b})
    return type(m) is int and type(q) is int and q == _trunc_div(a, {b}) and m == a - {b} * q and _ev('law', a=a, b={b}) is True
'''
for _b in DIVISORS:
    define(_SRC.format(b=_b, n=('m%d' % -_b) if _b < 0 else str(_b)), globals())


@ob(budget=150, bound='a, b integers in [-9, 9], b != 0 (both symbolic)', funcs=[O1 + ':evaluate__mod_operator', O2 + ':evaluate__idiv_operator'])
def int_mod_idiv_small(a: int, b: int) -> bool:
    """
    pre: -9 <= a <= 9 and -9 <= b <= 9 and b != 0
    post: _
    """
    m = _ev('mod', a=a, b=b)
    q = _ev('idiv', a=a, b=b)
    return type(m) is int and type(q) is int and q == _trunc_div(a, b) and m == a - b * q


@ob(budget=30, tbudget=600, kind='hunt', bound='a, b: all integers, b != 0 (non-linear: bug-hunting)',
    funcs=[O1 + ':evaluate__mod_operator', O2 + ':evaluate__idiv_operator'])
def int_mod_idiv_unbounded(a: int, b: int) -> bool:
    """
    pre: b != 0
    post: _
    """
    m = _ev('mod', a=a, b=b)
    q = _ev('idiv', a=a, b=b)
    return q == _trunc_div(a, b) and m == a - b * q and _ev('law', a=a, b=b) is True


@ob(budget=60, bound='a: all integers; divisor integer zero', funcs=[O1 + ':div', O1 + ':mod', O2 + ':idiv'])
def int_divzero(a: int) -> bool:
    """
    post: _
    """
    ok = True
    for k in ('div', 'idiv', 'mod'):
        try:
            _ev(k, a=a, b=0)
            ok = False
        except ElementPathError as e:
            ok = ok and err_code(e) == 'FOAR0001'
    return ok


@ob(tier='thorough', budget=30, tbudget=300, kind='hunt', bound='a, b integers in [-12, 12], b != 0 (Decimal result: not exhaustible, bug-hunting)',
    funcs=[O1 + ':evaluate__div_operator'])
def int_div_exact(a: int, b: int) -> bool:
    """
    pre: -12 <= a <= 12 and -12 <= b <= 12 and b != 0
    post: _
    """
    r = _ev('div', a=a, b=b)
    return isinstance(r, Decimal) and (a % b != 0 or r == a // b) and abs(r * b - a) <= Decimal('1e-20')


@ob(budget=90, bound='a, b integers in [-6, 6], b != 0 (instance-of inside XPath)', funcs=['instance of', O1, O2])
def int_result_types(a: int, b: int) -> bool:
    """
    pre: -6 <= a <= 6 and -6 <= b <= 6 and b != 0
    post: _
    """
    return _ev('inst', a=a, b=b) is True


@ob(tier='thorough', budget=30, tbudget=300, bound='a: integers up to 2^70 (bug-hunting)', funcs=['floor', 'ceiling', 'round', 'round-half-to-even'], kind='hunt')
def int_rounding_identity(a: int) -> bool:
    """
    pre: -2**70 <= a <= 2**70
    post: _
    """
    return _ev('floor', a=a) == a and _ev('ceil', a=a) == a and _ev('round', a=a) == a and _ev('rhe', a=a) == a


@ob(budget=60, bound='a integer in [-8, 8]', funcs=['floor', 'ceiling', 'round', 'round-half-to-even'])
def int_rounding_identity_small(a: int) -> bool:
    """
    pre: -8 <= a <= 8
    post: _
    """
    return _ev('floor', a=a) == a and _ev('ceil', a=a) == a and _ev('round', a=a) == a and _ev('rhe', a=a) == a


# --- doubles as exact half-integers and decimals k/10: bug-hunting only (DESIGN: measured not exhaustible) --------------------

@ob(budget=30, tbudget=300, kind='hunt', bound='x = k/2 double, |k| <= 2^40', funcs=['round', 'floor', 'ceiling'])
def half_double_round(k: int) -> bool:
    """
    pre: -2**40 <= k <= 2**40
    post: _
    """
    x = k / 2
    return _ev('round', a=x) == (k + 1) // 2 and _ev('floor', a=x) == k // 2 and _ev('ceil', a=x) == -((-k) // 2)


@ob(budget=30, tbudget=300, kind='hunt', bound='x = k/2, y = j/2 doubles, |k|,|j| <= 40, j != 0', funcs=[O1 + ':mod', O2 + ':idiv'])
def half_double_mod_idiv(k: int, j: int) -> bool:
    """
    pre: -40 <= k <= 40 and -40 <= j <= 40 and j != 0
    post: _
    """
    x, y = k / 2, j / 2
    q = _trunc_div(k, j)
    m = _ev('mod', a=x, b=y)
    return _ev('idiv', a=x, b=y) == q and m == (k - j * q) / 2


@ob(budget=30, tbudget=300, kind='hunt', bound='a = k/10, b = j/10 decimals, |k|,|j| <= 500, j != 0', funcs=[O1 + ':+', O1 + ':mod', O2 + ':idiv'])
def dec_add_mod(k: int, j: int) -> bool:
    """
    pre: -500 <= k <= 500 and -500 <= j <= 500 and j != 0
    post: _
    """
    a = Decimal(k) / Decimal(10)
    b = Decimal(j) / Decimal(10)
    q = _trunc_div(k, j)
    return _ev('add', a=a, b=b) * 10 == k + j and _ev('mod', a=a, b=b) * 10 == k - j * q and _ev('idiv', a=a, b=b) == q


@ob(budget=30, tbudget=300, kind='hunt', bound='x = k/2 double, |k| <= 100, divisor 0.0e0', funcs=[O1 + ':div'])
def float_zero_div(k: int) -> bool:
    """
    pre: -100 <= k <= 100
    post: _
    """
    r = _ev('div', a=k / 2, b=0.0)
    return math.isnan(r) if k == 0 else (r == math.inf if k > 0 else r == -math.inf)


# --- E2: rounding rules decided for all rationals from the current source (contract stubs; DESIGN §2 E2) ---------------------

import z3  # noqa: E402
from verif_lib import py2smt as PS  # noqa: E402
from harness.e2util import Queries, mval  # noqa: E402
from harness.common import P2, P31  # noqa: E402


def _spec_round(fn, x, p):
    """F&O fn:round: nearest multiple of 10^-p, ties toward positive infinity = floor(x * 10^p + 1/2) / 10^p."""
    if p >= 0:
        f = fn.floor(x * (10 ** p) + z3.RealVal('1/2'))
        return z3.ToReal(f) / (10 ** p)
    f = fn.floor(x / (10 ** -p) + z3.RealVal('1/2'))
    return z3.ToReal(f) * (10 ** -p)


def _as_real(v):
    if isinstance(v, int):
        return z3.RealVal(v)
    return z3.ToReal(v) if v.sort() == z3.IntSort() else v


def _fnobj(precision=None, version='3.1', nargs=1):
    parser = PS.Obj('parser', dict(version=version, compatibility_mode=False))
    return PS.Obj('self', dict(context=None, parser=parser), length=nargs)


def _round_stubs(arg, precision):
    def get_argument(fn, context, index=0, default=None, cls=None, required=False):
        return arg if index == 0 else precision
    return {'self.get_argument': get_argument, 'self[1].evaluate': lambda fn, context: precision}


def _rounding_obligation(pyfn, carriers, precisions, spec, what, replay_tpl):
    q = Queries(timeout_s=60)
    cex = []
    for carrier in carriers:
        for p in precisions:
            if carrier is int:
                x = z3.Int('x')
            else:
                x = z3.Real('x')
            try:
                if pyfn is None:
                    raise PS.Unsupported('function not found')
                arg = PS.Sym(x, carrier)
                r = PS.translate(pyfn, [_fnobj(nargs=1 if p is None else 2), None] if what != 'round_number' else [arg],
                                 stubs=_round_stubs(arg, p if p is not None else 0))
            except PS.Unsupported as e:
                return q.result(not_encodable='%s[%s, p=%s]: %s' % (what, carrier.__name__, p, e))
            fn = r['fn']
            want = spec(fn, _as_real(x), p or 0)
            base = list(r['side'])
            tag = '%s[%s,p=%s]' % (what, carrier.__name__, p)
            res, _ = q.check(tag + ' raises', base + [r['raised']])
            res0, m0 = q.check(tag + ' reach', base, expect='sat')
            if m0 is not None:
                q.samples.append('%s x=%s' % (tag, mval(m0, x)))
                q.sat = [s for s in q.sat if s[0] != tag + ' reach']
            res, m = q.check(tag + ' != spec', base + [_as_real(r['val']) != want])
            if res == 'sat':
                xv = mval(m, x)
                cex.append(dict(call=replay_tpl % dict(x=repr(str(xv)), p=repr(p), carrier=repr(carrier.__name__)),
                                message='%s: code gives %s, F&O gives %s at x=%s' % (tag, mval(m, _as_real(r['val'])), mval(m, want), xv)))
    notes = sorted(set(r['notes'])) if 'r' in dir() else []
    return q.result(cex, detail=dict(stubs=notes))


def replay_round(fname, xs, p, carrier):
    """Concrete replay of an E2 counterexample through the public evaluator (plain package)."""
    from fractions import Fraction
    import math as _m
    x = Fraction(xs)
    val = {'int': lambda: int(x), 'Decimal': lambda: Decimal(x.numerator) / Decimal(x.denominator),
           'float': lambda: x.numerator / x.denominator}[carrier]()
    if fname == 'round_number':
        from elementpath.helpers import round_number
        got = Fraction(round_number(val))
        want = Fraction(_m.floor(x + Fraction(1, 2)))
        return got == want
    if fname == 'round_xp2':
        tok = T_XP2_ROUND
        fname = 'round'
    else:
        tok = T['round' if p is None else 'round2'] if fname == 'round' else T['rhe' if p is None else 'rhe2']
    got = _one(tok.evaluate(XPathContext(item=1, variables={'a': val, 'p': p})))
    got = Fraction(got)
    pp = p or 0
    if fname == 'round':
        want = Fraction(_m.floor(x * Fraction(10) ** pp + Fraction(1, 2))) / Fraction(10) ** pp
    else:
        y = x * Fraction(10) ** pp
        f = _m.floor(y)
        want = Fraction(f + 1 if y - f > Fraction(1, 2) else f if y - f < Fraction(1, 2) else (f if f % 2 == 0 else f + 1)) / Fraction(10) ** pp
    return got == want


@ob(engine='z3', budget=120, bound='all rationals x (z3 Real), carriers int/float/Decimal',
    funcs=['elementpath/helpers.py:round_number'])
def e2_round_number(ctx):
    from elementpath import helpers
    return _rounding_obligation(helpers.round_number, (int, float, Decimal), (None,), _spec_round, 'round_number',
                                "replay_round('round_number', %(x)s, %(p)s, %(carrier)s)")


def _registered(parser, symbol):
    cls = parser.symbol_table.get(symbol)
    f = getattr(cls, 'evaluate', None)
    return getattr(f, '__func__', f)


@ob(engine='z3', budget=120, bound='all rationals x; precision in {absent, 0, 1, 2}; XPath 3.1 fn:round', 
    funcs=['elementpath/xpath30/_xpath30_functions.py:evaluate__round'])
def e2_fn_round(ctx):
    return _rounding_obligation(_registered(P31, 'round'), (int, Decimal, float), (None, 0, 1, 2), _spec_round, 'round',
                                "replay_round('round', %(x)s, %(p)s, %(carrier)s)")


@ob(engine='z3', budget=120, bound='all rationals x; XPath 2.0 fn:round (one argument)',
    funcs=['elementpath/xpath1/_xpath1_functions.py:evaluate__round'])
def e2_fn_round_xp2(ctx):
    return _rounding_obligation(_registered(P2, 'round'), (int, Decimal, float), (None,), _spec_round, 'round',
                                "replay_round('round_xp2', %(x)s, %(p)s, %(carrier)s)")


T_XP2_ROUND = P2.parse('round($a)')


def _spec_rhe(fn, x, p):
    y = x * (10 ** p) if p >= 0 else x / (10 ** -p)
    r = fn.round_half(y, 'even')
    return z3.ToReal(r) / (10 ** p) if p >= 0 else z3.ToReal(r) * (10 ** -p)


@ob(engine='z3', budget=120, bound='all rationals x; precision -1, -2 (negative precision); XPath 3.1 fn:round',
    funcs=['elementpath/xpath30/_xpath30_functions.py:evaluate__round'])
def e2_fn_round_negative_precision(ctx):
    return _rounding_obligation(_registered(P31, 'round'), (int, Decimal, float), (-1, -2), _spec_round, 'round',
                                "replay_round('round', %(x)s, %(p)s, %(carrier)s)")


@ob(engine='z3', budget=120, bound='all rationals x; precision in {absent, 0, 1, 2, -1}; fn:round-half-to-even',
    funcs=['elementpath/xpath2/_xpath2_functions.py:evaluate__round_half_to_even'])
def e2_fn_round_half_to_even(ctx):
    return _rounding_obligation(_registered(P31, 'round-half-to-even'), (int, Decimal, float), (None, 0, 1, 2, -1), _spec_rhe,
                                'rhe', "replay_round('rhe', %(x)s, %(p)s, %(carrier)s)")


# --- E2: idiv / mod over mixed integer, decimal and double carriers, constant divisors, dividend over ALL rationals -----------

from fractions import Fraction  # noqa: E402

E2_DIVISORS = (Fraction(2), Fraction(-2), Fraction(5, 2), Fraction(-5, 2), Fraction(1, 2), Fraction(-3), Fraction(7), Fraction(-1))


def _divmod_obligation(symbol, parser, spec_kind, what):
    q = Queries(timeout_s=30, diff_binary=False)   # z3 4.8.12 times out on the mixed Int/Real floor encoding; 5.1 answers in ms
    pyfn = _registered(parser, symbol)
    cex = []
    notes = []
    for ca in (int, Decimal, float):
        for cb in (int, Decimal, float):
            for d in E2_DIVISORS:
                if cb is int and d.denominator != 1:
                    continue
                a = z3.Int('a') if ca is int else z3.Real('a')
                bterm = int(d) if d.denominator == 1 and cb is int else z3.RealVal(str(d))
                # get_operands converts a Decimal operand to float when the other one is a float
                ta, tb = ca, cb
                if float in (ca, cb) and Decimal in (ca, cb):
                    ta = tb = float
                op1, op2 = PS.Sym(a, ta), PS.Sym(bterm, tb)
                stubs = {'self.get_operands': lambda fn, context, cls=None, _o=(op1, op2): _o}
                try:
                    r = PS.translate(pyfn, [_fnobj(), None], stubs=stubs)
                except PS.Unsupported as e:
                    return q.result(not_encodable='%s[%s,%s,b=%s]: %s' % (what, ca.__name__, cb.__name__, d, e))
                fn = r['fn']
                ar = _as_real(a)
                br = z3.RealVal(str(d))
                tq = fn.trunc(ar / br)
                want = _as_real(tq) if spec_kind == 'idiv' else ar - br * z3.ToReal(tq)
                tag = '%s[%s %s %s]' % (what, ca.__name__, what, '%s:%s' % (cb.__name__, d))
                base = list(r['side'])
                res, m = q.check(tag + ' raises', base + [r['raised']])
                if res == 'sat':
                    cex.append(dict(call='replay_divmod(%r, %r, %r, %r, %r)' % (what, str(mval(m, a)), ca.__name__, str(d), cb.__name__),
                                    message=tag + ': raises at a=%s' % mval(m, a)))
                    continue
                res, m = q.check(tag + ' != spec', base + [_as_real(r['val']) != want])
                if res == 'sat':
                    cex.append(dict(call='replay_divmod(%r, %r, %r, %r, %r)' % (what, str(mval(m, a)), ca.__name__, str(d), cb.__name__),
                                    message='%s: code gives %s, F&O gives %s at a=%s' % (tag, mval(m, _as_real(r['val'])), mval(m, want), mval(m, a))))
                notes = r['notes']
    q.samples.append('%s: 3x3 carriers x %d constant divisors' % (what, len(E2_DIVISORS)))
    return q.result(cex[:12], detail=dict(stubs=sorted(set(notes))))


def _carrier_value(xs, carrier):
    x = Fraction(xs)
    return {'int': lambda: int(x), 'Decimal': lambda: Decimal(x.numerator) / Decimal(x.denominator),
            'float': lambda: x.numerator / x.denominator}[carrier]()


def replay_divmod(what, a_s, ca, b_s, cb):
    import math as _m
    a, b = Fraction(a_s), Fraction(b_s)
    va, vb = _carrier_value(a_s, ca), _carrier_value(b_s, cb)
    if isinstance(va, float) and Fraction(va) != a:
        return True      # not exactly representable as a double: outside the claim
    if isinstance(va, Decimal) and Fraction(va) != a:
        return True      # not exactly representable in 28 digits
    got = _ev(what, a=va, b=vb)
    tq = _m.trunc(a / b)
    want = Fraction(tq) if what == 'idiv' else a - b * tq
    return Fraction(got) == want


@ob(engine='z3', budget=120, bound='dividend: all rationals (int/decimal/double carriers, reals for doubles); 8 constant divisors x 3x3 carrier pairs',
    funcs=[O2 + ':evaluate__idiv_operator', 'elementpath/xpath_tokens/base.py:get_operands (promotion contract)'])
def e2_idiv_mixed(ctx):
    return _divmod_obligation('idiv', P31, 'idiv', 'idiv')


@ob(engine='z3', budget=120, bound='dividend: all rationals (int/decimal/double carriers, reals for doubles); 8 constant divisors x 3x3 carrier pairs',
    funcs=[O1 + ':evaluate__mod_operator', 'elementpath/xpath_tokens/base.py:get_operands (promotion contract)'])
def e2_mod_mixed(ctx):
    return _divmod_obligation('mod', P31, 'mod', 'mod')


# --- added after round-2 seeded changes: IEEE special divisors as constants, dividend symbolic ------------------------------------

@ob(budget=60, tbudget=300, kind='hunt', bound='x = k/2 double, |k| <= 16; divisors +0.0, -0.0, +INF, -INF, NaN as constants: div/idiv/mod follow IEEE 754 / F&O (doubles: bug-hunting)',
    funcs=[O1 + ':evaluate__div_operator', O1 + ':evaluate__mod_operator', O2 + ':evaluate__idiv_operator'])
def double_special_divisors(k: int) -> bool:
    """
    pre: -16 <= k <= 16
    post: _
    """
    x = k / 2
    inf = math.inf
    pz, nz = _ev('div', a=x, b=0.0), _ev('div', a=x, b=-0.0)
    if k == 0:
        if not (math.isnan(pz) and math.isnan(nz)):
            return False
    elif not (pz == (inf if k > 0 else -inf) and nz == (-inf if k > 0 else inf)):
        return False
    if not (_ev('div', a=x, b=inf) == 0 and _ev('div', a=x, b=-inf) == 0 and math.isnan(_ev('div', a=x, b=math.nan))):
        return False
    if not (math.isnan(_ev('mod', a=x, b=0.0)) and math.isnan(_ev('mod', a=x, b=-0.0)) and math.isnan(_ev('mod', a=inf, b=2.0))):
        return False
    m = _ev('mod', a=x, b=inf)
    if not (m == x):
        return False
    for b in (0.0, -0.0):
        try:
            _ev('idiv', a=x, b=b)
            return False
        except ElementPathError as e:
            if err_code(e) != 'FOAR0001':
                return False
    return _ev('idiv', a=x, b=inf) == 0


# --- added after round-2 seeded changes: rounding of xs:double values that are not exact decimal ties (exact binary value decides) --------

RDBL = (2.675, 1.115, 2.665, 0.125, 2.5, 1.005, -2.675, 8.345, 0.15, 35612.25, -0.5, 1.45)


@ob(budget=200, kind='hunt', bound='x from a table of 12 doubles (9 of them print like a decimal tie but are not one in binary), precision 0..3, '
                                   'index and precision chosen by the solver: fn:round and fn:round-half-to-even equal the rounding of the '
                                   'exact binary value computed with fractions (table of values: bug-hunting)',
    funcs=['elementpath/xpath2/_xpath2_functions.py:evaluate__round_half_to_even', 'elementpath/xpath30/_xpath30_functions.py:evaluate__round'])
def rounding_inexact_doubles(i: int, p: int) -> bool:
    """
    pre: 0 <= i < 12 and 0 <= p <= 3
    post: _
    """
    import math as _m
    p = 0 if p == 0 else 1 if p == 1 else 2 if p == 2 else 3        # concrete precision on each path (symbolic ints in Decimal.__round__ realise inconsistently)
    i = [k for k in range(12) if k == i][0]
    x = RDBL[i]
    fx = Fraction(x)
    y = fx * Fraction(10) ** p
    f = _m.floor(y)
    half_even = Fraction(f + 1 if y - f > Fraction(1, 2) else f if y - f < Fraction(1, 2) else (f if f % 2 == 0 else f + 1)) / Fraction(10) ** p
    half_up = Fraction(_m.floor(y + Fraction(1, 2))) / Fraction(10) ** p
    got_e = _one(T['rhe2'].evaluate(XPathContext(item=1, variables={'a': x, 'p': p})))
    got_u = _one(T['round2'].evaluate(XPathContext(item=1, variables={'a': x, 'p': p})))
    return isinstance(got_e, float) and isinstance(got_u, float) and got_e == float(half_even) and got_u == float(half_up)


# --- added after round-3 seeded changes: result TYPE of + - * div for every ordered pair of numeric carriers (F&O type promotion) ----------

from elementpath.datatypes import Float as _XsFloat  # noqa: E402
_RANK = {'int': 0, 'dec': 1, 'flt': 2, 'dbl': 3}
_KINDS = ('int', 'dec', 'flt', 'dbl')


def _carry(kind, k):
    if kind == 'int':
        return k
    if kind == 'dec':
        return Decimal(k) / 4
    if kind == 'flt':
        return _XsFloat(k / 4)
    return k / 4


@ob(budget=400, bound='operator in {+,-,*,div} x left carrier x right carrier over {integer, decimal, xs:float, xs:double} (all 64 cases) x '
                      'left value k1/4 with k1 in {-3, 2, 5} (integers: k1) x right value k2/4 with k2 in {-1, 2} - every index chosen by the '
                      'solver, values concrete on each path (CrossHair models floats as reals): the result type is the promoted type (double > '
                      'float > decimal > integer; integer div integer is decimal) and the value is exact',
    funcs=['elementpath/xpath_tokens/base.py:get_operands', O1 + ':+ - * div'])
def result_type_promotion(oi: int, ai: int, bi: int, i1: int, i2: int) -> bool:
    """
    pre: 0 <= oi <= 3 and 0 <= ai <= 3 and 0 <= bi <= 3 and 0 <= i1 <= 2 and 0 <= i2 <= 1
    post: _
    """
    op = ('add', 'sub', 'mul', 'div')[[i for i in range(4) if i == oi][0]]
    ka, kb = _KINDS[[i for i in range(4) if i == ai][0]], _KINDS[[i for i in range(4) if i == bi][0]]
    k1 = (-3, 2, 5)[[i for i in range(3) if i == i1][0]]
    k2 = (-1, 2)[[i for i in range(2) if i == i2][0]]
    if ka == 'int':
        k1 = k1 * 4
    if kb == 'int':
        k2 = k2 * 4
    a, b = _carry(ka, k1 // 4 if ka == 'int' else k1), _carry(kb, k2 // 4 if kb == 'int' else k2)
    r = _ev(op, a=a, b=b)
    rank = max(_RANK[ka], _RANK[kb])
    if rank == 0 and op == 'div':
        rank = 1
    want_type = (int, Decimal, _XsFloat, float)[rank]
    if type(r) is not want_type and not (rank == 0 and isinstance(r, int) and not isinstance(r, bool)):
        return False
    x, y = Fraction(k1, 4), Fraction(k2, 4)
    exact = {'add': x + y, 'sub': x - y, 'mul': x * y, 'div': x / y}[op]
    if op == 'div' and exact.denominator & (exact.denominator - 1):
        return True          # not exact in binary: only the type is checked
    return Fraction(r) == exact


# --- added after round-4 seeded changes: fn:round / round-half-to-even with NEGATIVE precision on concrete values (the E2 obligation loses its
#     verdict when the quantize exponent is computed in a way the translator does not model) --------------------------------------------------

RNEG = (1250, 1350, -1250, 49, 50, -50, 5, 1234)
RNEG_DEC = (Decimal('1234.5678'), Decimal('-1250'), Decimal('1250.00'), Decimal('149.99'), Decimal('150'))


@ob(budget=200, bound='value from a table of 8 integers, 5 decimals and the 8 integers as doubles; precision in {-1, -2, -3} (indices chosen by the solver, '
                      'concrete on each path): fn:round = nearest multiple of 10^-p with ties toward +INF, round-half-to-even = ties to even, '
                      'result type = argument type',
    funcs=['elementpath/xpath30/_xpath30_functions.py:evaluate__round', 'elementpath/xpath2/_xpath2_functions.py:evaluate__round_half_to_even'])
def round_negative_precision_values(i: int, kind: int, pi: int) -> bool:
    """
    pre: 0 <= i <= 7 and 0 <= kind <= 2 and 1 <= pi <= 3
    post: _
    """
    import math as _m
    i = [k for k in range(8) if k == i][0]
    kind = 0 if kind == 0 else 1 if kind == 1 else 2
    p = -(1 if pi == 1 else 2 if pi == 2 else 3)
    if kind == 1 and i > 4:
        return True
    x = RNEG[i] if kind == 0 else RNEG_DEC[i] if kind == 1 else float(RNEG[i])
    fx = Fraction(x)
    unit = Fraction(10) ** (-p)
    y = fx / unit
    f = _m.floor(y)
    up = Fraction(_m.floor(y + Fraction(1, 2))) * unit
    even = Fraction(f + 1 if y - f > Fraction(1, 2) else f if y - f < Fraction(1, 2) else (f if f % 2 == 0 else f + 1)) * unit
    gu = _one(T['round2'].evaluate(XPathContext(item=1, variables={'a': x, 'p': p})))
    ge = _one(T['rhe2'].evaluate(XPathContext(item=1, variables={'a': x, 'p': p})))
    want_type = (int, Decimal, float)[kind]
    return Fraction(gu) == up and Fraction(ge) == even and isinstance(gu, want_type) and isinstance(ge, want_type)


# --- added after the round-4 baseline reports: integers beyond the range of xs:double --------------------------------------------------------

HUGE = (10 ** 400, -10 ** 400, 10 ** 400 + 7, -(3 * 10 ** 309) - 1, 2 ** 1024, 17)
HUGE_DIV = (3, -7, 10 ** 399, -(2 ** 1024) + 1, 10 ** 401)
T_HUGE = parse_all({'x': '($a idiv $b, $a mod $b, $a + $b, $a - $b, $a * $b)'})['x']
T_HUGE_D = parse_all({'idiv': '$a idiv $d', 'mod': '$a mod $d', 'ridiv': '$d idiv $a', 'rmod': '$d mod $a'})


@ob(budget=200, bound='dividend from {10^400, -10^400, 10^400+7, -3*10^309-1, 2^1024, 17}, divisor from {3, -7, 10^399, 1-2^1024, 10^401} (indices chosen by the solver, '
                      'values concrete on each path): idiv truncates toward zero, mod takes the sign of the dividend, a = (a idiv b)*b + (a mod b), + - * are exact; '
                      'with an xs:double 1.5e0 on either side of idiv / mod the outcome is a double or an ElementPathError, never another exception',
    funcs=[O2 + ':evaluate__idiv_operator', O1 + ':evaluate__mod_operator'])
def huge_integer_division(ai: int, bi: int) -> bool:
    """
    pre: 0 <= ai <= 5 and 0 <= bi <= 4
    post: _
    """
    a, b = HUGE[[k for k in range(6) if k == ai][0]], HUGE_DIV[[k for k in range(5) if k == bi][0]]
    r = T_HUGE.evaluate(XPathContext(item=1, variables={'a': a, 'b': b}))
    q = _trunc_div(a, b)
    if r != [q, a - q * b, a + b, a - b, a * b] or not all(type(x) is int for x in r):
        return False
    for key in ('idiv', 'mod', 'ridiv', 'rmod'):
        try:
            x = _one(T_HUGE_D[key].evaluate(XPathContext(item=1, variables={'a': a, 'd': 1.5})))
            if not isinstance(x, (int, float)):
                return False
        except ElementPathError:
            pass
    return True


# --- round 5: the sign of a zero result of the rounding functions on doubles/floats (F&O 4.4: negative zero for a negative-zero argument, and
#     for ceiling / round / round-half-to-even of a negative argument that rounds to zero; abs(-0.0) is +0.0) -----------------------------------

F1X = 'elementpath/xpath1/_xpath1_functions.py'


@ob(budget=200, bound='x = k/4 as xs:double and as xs:float, |k| <= 8, plus negative zero (index chosen by the solver, the value concrete on each path): floor, '
                      'ceiling, round, round-half-to-even and abs return the IEEE value AND the sign of zero F&O specifies, with the type of the argument',
    funcs=[F1X + ':evaluate__ceiling_and_floor_functions', F1X + ':evaluate__round', F1X + ':evaluate__abs'])
def rounding_functions_keep_zero_sign(k: int, negzero: bool, single: bool) -> bool:
    """
    pre: -8 <= k <= 8
    post: _
    """
    k = [j for j in range(-8, 9) if j == k][0]
    x = -0.0 if (negzero and k == 0) else k / 4
    neg = math.copysign(1.0, x) < 0
    a = _XsFloat(x) if single else x

    def same(r, want, negative_zero):
        if not isinstance(r, float) or (single and not isinstance(r, _XsFloat)):
            return False
        if r != want:
            return False
        return r != 0 or (math.copysign(1.0, r) < 0) == negative_zero

    half_up = math.floor(x + 0.5)
    fl = math.floor(x)
    half_even = fl if x - fl < 0.5 else fl + 1 if x - fl > 0.5 else (fl if fl % 2 == 0 else fl + 1)
    return (same(_ev('floor', a=a), float(math.floor(x)), neg) and same(_ev('ceil', a=a), float(math.ceil(x)), neg)
            and same(_ev('round', a=a), float(half_up), neg) and same(_ev('rhe', a=a), float(half_even), neg)
            and same(_ev('abs', a=a), abs(x), False))
