"""C13 — Unicode code-point sets: set algebra (E1, one inductive step from an arbitrary valid pre-state) and tables (z3)."""
import sys
import unicodedata
import z3
from harness.common import ob, define, PLAIN
from harness.e2util import Queries, mval
from elementpath.regex.unicode_subsets import UnicodeSubset, UnicodeData
from elementpath.regex.codepoints import iter_code_points
from elementpath.regex import unicode_categories, unicode_subsets as _us

U = 'elementpath/regex/unicode_subsets.py'
INFO = dict(
    level='other',
    explanation='E1: UnicodeSubset operations are executed symbolically by CrossHair from an ARBITRARY valid pre-state (n <= 3 entries '
                'given by symbolic bounds over the full range [0, 0x110000], int-vs-range form chosen by length, adjacency allowed) with '
                'symbolic operands; membership of a symbolic code point must equal the mathematical set operation and the '
                'representation invariant (sorted, pairwise non-overlapping) must hold again: one inductive step covers operation '
                'sequences of any length that stay within n entries. z3: the installed category tables (produced by the real '
                'get_categories diff-patching code) are compared with unicodedata.category as range disjunctions for every code point; '
                'partition and disjointness laws are single exists-x queries.',
    assumptions=['pre-states of at most 3 entries (2 for binary operands); &= and ^= iterate single code points and are stated over a '
                 'universe of 16 code points', 'the weak representation invariant (sorted, non-overlapping; adjacency and one-element '
                 'ranges allowed) is what add/discard preserve: merged canonical form is a recorded known finding (C13-add-unmerged)',
                 'tables of non-running Unicode versions are checked for internal consistency only (no UCD files offline)'])
M = 0x110000


def _mk(bounds, n):
    """weakly-canonical list: entries (s, e) with s < e; a 1-element entry is an int"""
    return [(s if e == s + 1 else (s, e)) for (s, e) in bounds[:n]]


def _sub(bounds, n):
    u = UnicodeSubset()
    u._codepoints = _mk(bounds, n)
    return u


def _weak_invariant(cps):
    """sorted, pairwise non-overlapping, well-formed entries"""
    prev_end = -1
    for cp in cps:
        if isinstance(cp, int):
            lo, hi = cp, cp + 1
        else:
            lo, hi = cp
            if hi <= lo:
                return False
        if lo < prev_end or lo < 0 or hi > M:
            return False
        prev_end = hi
    return True


def _canonical(cps):
    """sorted, non-overlapping, NON-ADJACENT, one-element entries are ints: what extensional == needs"""
    prev_end = -2
    for cp in cps:
        if isinstance(cp, int):
            lo, hi = cp, cp + 1
        else:
            lo, hi = cp
            if hi - lo < 2:
                return False
        if lo <= prev_end:
            return False
        prev_end = hi
    return True


PRE3 = '0 <= n <= 3 and 0 <= a0 < a1 <= b0 < b1 <= c0 < c1 <= 0x110000'
PRE3GAP = '0 <= n <= 3 and 0 <= a0 < a1 < b0 < b1 < c0 < c1 <= 0x110000'

_SRC = '''
@ob(budget={budget}, bound='pre-state: <= 3 entries, any bounds in [0,0x110000] ({gap}); operand: any range; x: any code point',
    funcs=[U + ':UnicodeSubset.{op}', U + ':UnicodeSubset.__contains__'])
def {op}_membership{sfx}(a0: int, a1: int, b0: int, b1: int, c0: int, c1: int, n: int, s: int, e: int, x: int) -> bool:
    """
    pre: {pre}
    pre: 0 <= s < e <= 0x110000 and 0 <= x < 0x110000
    post: _
    """
    u = _sub([(a0, a1), (b0, b1), (c0, c1)], n)
    before = x in u
    u.{op}(s if e == s + 1 else (s, e))
    return (x in u) == ({expect}) and _weak_invariant(u._codepoints)
'''
define(_SRC.format(op='add', sfx='', pre=PRE3, gap='adjacent entries allowed', budget=400, expect='before or s <= x < e'), globals())
define(_SRC.format(op='discard', sfx='', pre=PRE3, gap='adjacent entries allowed', budget=400, expect='before and not s <= x < e'), globals())


@ob(budget=60, kind='witness', finding='C13-add-unmerged',
    bound='pre-state: <= 3 canonical (non-adjacent) entries; add of any range must leave a merged canonical representation',
    funcs=[U + ':UnicodeSubset.add'])
def add_keeps_canonical(a0: int, a1: int, b0: int, b1: int, c0: int, c1: int, n: int, s: int, e: int) -> bool:
    """
    pre: 0 <= n <= 3 and 0 <= a0 < a1 < b0 < b1 < c0 < c1 <= 0x110000
    pre: 0 <= s < e <= 0x110000
    post: _
    """
    u = _sub([(a0, a1), (b0, b1), (c0, c1)], n)
    u.add(s if e == s + 1 else (s, e))
    return _canonical(u._codepoints)


@ob(budget=200, bound='pre-state: <= 3 canonical (non-adjacent) entries; discard of any range leaves a merged canonical representation',
    funcs=[U + ':UnicodeSubset.discard'])
def discard_keeps_canonical(a0: int, a1: int, b0: int, b1: int, c0: int, c1: int, n: int, s: int, e: int) -> bool:
    """
    pre: 0 <= n <= 3 and 0 <= a0 < a1 < b0 < b1 < c0 < c1 <= 0x110000
    pre: 0 <= s < e <= 0x110000
    post: _
    """
    u = _sub([(a0, a1), (b0, b1), (c0, c1)], n)
    u.discard(s if e == s + 1 else (s, e))
    return _canonical(u._codepoints)


@ob(budget=120, bound='subset of <= 2 entries over the full range; x any code point',
    funcs=[U + ':UnicodeSubset.complement'])
def complement_membership(a0: int, a1: int, b0: int, b1: int, n: int, x: int) -> bool:
    """
    pre: 0 <= n <= 2 and 0 <= a0 < a1 < b0 < b1 <= 0x110000 and 0 <= x < 0x110000
    post: _
    """
    u = _sub([(a0, a1), (b0, b1)], n)
    c = UnicodeSubset()
    c._codepoints = list(u.complement())
    return (x in c) == (x not in u) and _weak_invariant(c._codepoints)


@ob(budget=120, bound='two code points and one range anywhere in the full range; x any code point',
    funcs=['elementpath/regex/codepoints.py:iter_code_points'])
def iter_code_points_normalises(p: int, q: int, r0: int, r1: int, x: int, rev: bool) -> bool:
    """
    pre: 0 <= p < 0x110000 and 0 <= q < 0x110000 and 0 <= r0 < r1 <= 0x110000 and 0 <= x < 0x110000
    post: _
    """
    out = list(iter_code_points([p, q, (r0, r1)], reverse=rev))
    if rev:
        out = out[::-1]
    u = UnicodeSubset()
    u._codepoints = out
    return _weak_invariant(out) and (x in u) == (x == p or x == q or r0 <= x < r1)


_SRC2 = '''
@ob(budget={budget}, tier='{tier}', kind='{kind}', bound='{bound}', funcs=[U + ':UnicodeSubset.{dunder}', U + ':UnicodeSubset.add', U + ':UnicodeSubset.discard'])
def {name}(a0: int, a1: int, b0: int, b1: int, n: int, c0: int, c1: int, d0: int, d1: int, m: int, x: int) -> bool:
    """
    pre: 0 <= n <= {nmax} and 0 <= m <= {mmax}
    pre: 0 <= a0 < a1 <= b0 < b1 <= {top} and 0 <= c0 < c1 <= d0 < d1 <= {top} and 0 <= x < {top}
    post: _
    """
    u = _sub([(a0, a1), (b0, b1)], n)
    v = _sub([(c0, c1), (d0, d1)], m)
    inu = x in u
    inv = x in v
    vcopy = list(v._codepoints)
    u {op} v
    return (x in u) == ({expect}) and _weak_invariant(u._codepoints) and v._codepoints == vcopy
'''
for _name, _dunder, _op, _expect in (('ior', '__ior__', '|=', 'inu or inv'), ('isub', '__isub__', '-=', 'inu and not inv')):
    define(_SRC2.format(name=_name + '_membership', dunder=_dunder, op=_op, expect=_expect, top='0x110000', budget=300, mmax=1, nmax=2,
                        tier='quick', kind='main',
                        bound='left subset <= 2 entries, right subset <= 1 entry, full range; x any code point'), globals())
    define(_SRC2.format(name=_name + '_membership_2x2', dunder=_dunder, op=_op, expect=_expect, top='0x110000', budget=1500, mmax=2, nmax=2,
                        tier='thorough', kind='hunt',
                        bound='two subsets of <= 2 entries each over the full range (not exhausted in 300 s: bug-hunting)'), globals())
for _name, _dunder, _op, _expect in (('iand', '__iand__', '&=', 'inu and inv'), ('ixor', '__ixor__', '^=', 'inu != inv')):
    define(_SRC2.format(name=_name + '_membership_u8', dunder=_dunder, op=_op, expect=_expect, top='8', budget=300, mmax=1, nmax=1,
                        tier='quick', kind='main',
                        bound='two subsets of <= 1 entry each over a universe of 8 code points (the operator iterates single code points)'),
           globals())
    define(_SRC2.format(name=_name + '_membership_u16', dunder=_dunder, op=_op, expect=_expect, top='16', budget=240, mmax=2, nmax=2,
                        tier='thorough', kind='hunt',
                        bound='two subsets of <= 2 entries each over a universe of 16 code points (not exhausted in 300 s: bug-hunting)'),
           globals())


@ob(budget=120, bound='subset built by the constructor from a list of <= 3 arbitrary (unsorted) entries; x any code point',
    funcs=[U + ':UnicodeSubset.__init__', U + ':UnicodeSubset.__contains__', U + ':UnicodeSubset.__len__'])
def init_and_len(p: int, q: int, r0: int, r1: int, x: int) -> bool:
    """
    pre: 0 <= p < 0x110000 and 0 <= q < 0x110000 and 0 <= r0 < r1 <= 0x110000 and r1 - r0 <= 6 and 0 <= x < 0x110000
    pre: p != q and not (r0 <= p < r1) and not (r0 <= q < r1)
    post: _
    """
    u = UnicodeSubset([p, (r0, r1), q])
    return (x in u) == (x == p or x == q or r0 <= x < r1) and len(u) == 2 + r1 - r0


# ---------------------------------------------------------------------------------------------------
# tables: z3 over the data produced by the real loading code

def _ranges_of(cps):
    return [(cp, cp + 1) if isinstance(cp, int) else (cp[0], cp[1]) for cp in cps]


def _member(x, ranges):
    """membership of the 21-bit code point x in a sorted range list (QF_BV: the Int encoding left z3 without an answer after 120 s
    on conjunctions of two large range disjunctions; bit-blasted it takes milliseconds)"""
    if not ranges:
        return z3.BoolVal(False)
    return z3.Or(*[z3.And(z3.UGE(x, lo), z3.ULE(x, hi - 1)) if hi - lo > 1 else x == lo for lo, hi in ranges])


def _bv():
    x = z3.BitVec('x', 21)
    return x, [z3.ULT(x, M)]


_UD_CACHE = {}


def _unicodedata_ranges():
    """ranges per category from the running interpreter's unicodedata (independent reference)"""
    if _UD_CACHE:
        return _UD_CACHE
    start, cur = 0, unicodedata.category(chr(0))
    out = {}
    for cp in range(1, M + 1):
        c = unicodedata.category(chr(cp)) if cp < M else None
        if c != cur:
            out.setdefault(cur, []).append((start, cp))
            start, cur = cp, c
    _UD_CACHE.update(out)
    return out


@ob(engine='z3', budget=300, bound='every code point in [0, 0x10FFFF] x every category of the installed (running-version) data',
    funcs=[U + ':get_categories', U + ':UnicodeData.category', 'elementpath/regex/unicode_categories.py'])
def tables_equal_unicodedata(ctx):
    q = Queries(timeout_s=120, diff_binary=False)
    x, rng = _bv()
    ref = _unicodedata_ranges()
    data = UnicodeData()      # running version, as installed at import
    cex = []
    minors = sorted(k for k in data._categories if len(k) == 2)
    q.samples.append('version=%s categories=%s' % (data.version, ','.join(minors)))
    for c in minors:
        table = _ranges_of(data.category(c)._codepoints)
        res, m = q.check('category %s: table != unicodedata' % c, rng + [_member(x, table) != _member(x, ref.get(c, []))])
        if res == 'sat':
            cp = mval(m, x)
            cex.append(dict(call='replay_category(%d, %r)' % (cp, c), message='code point %d: table and unicodedata disagree on %s' % (cp, c)))
    missing = sorted(set(ref) - set(minors))
    if missing:
        cex.append(dict(call='replay_category(%d, %r)' % (ref[missing[0]][0][0], missing[0]), message='category missing: %s' % missing[0]))
    return q.result(cex)


def replay_category(cp, c):
    from elementpath.regex import unicode_category
    return (cp in unicode_category(c)) == (unicodedata.category(chr(cp)) == c)


def _versions_with_tables():
    return list(unicode_categories.UNICODE_VERSIONS)


def _cats(ver):
    """category tables of a version, produced by the real diff-patching loader"""
    return _us.get_categories(tuple(int(v) for v in ver.split('.')), unicode_categories)


@ob(engine='z3', budget=300, bound='every code point x every Unicode version that ships category tables: subcategories partition '
    '[0,0x10FFFF], each major category = union of its subcategories',
    funcs=[U + ':get_categories', U + ':UnicodeData.__init__'])
def tables_partition(ctx):
    q = Queries(timeout_s=120, diff_binary=False)
    x, rng = _bv()
    cex = []
    for ver in _versions_with_tables():
        cats = _cats(ver)
        minors = sorted(k for k in cats if len(k) == 2)
        majors = sorted(k for k in cats if len(k) == 1)
        mem = {c: _member(x, _ranges_of(cats[c]._codepoints)) for c in cats}
        res, m = q.check('%s: every code point is in some subcategory' % ver, rng + [z3.Not(z3.Or(*[mem[c] for c in minors]))])
        if res == 'sat':
            cex.append(dict(call='replay_partition(%r, %d)' % (ver, mval(m, x)), message='%s: code point in no subcategory' % ver))
        for i, c in enumerate(minors[:-1]):
            res, m = q.check('%s: %s disjoint from later subcategories' % (ver, c),
                             rng + [mem[c], z3.Or(*[mem[d] for d in minors[i + 1:]])])
            if res == 'sat':
                cex.append(dict(call='replay_partition(%r, %d)' % (ver, mval(m, x)), message='%s: code point in two subcategories' % ver))
        for mj in majors:
            subs = [c for c in minors if c[0] == mj]
            res, m = q.check('%s: %s = union(%s)' % (ver, mj, ','.join(subs)), rng + [mem[mj] != z3.Or(*[mem[c] for c in subs])])
            if res == 'sat':
                cex.append(dict(call='replay_major(%r, %r, %d)' % (ver, mj, mval(m, x)), message='%s: major category %s wrong' % (ver, mj)))
        q.samples.append('version=%s minors=%d majors=%d' % (ver, len(minors), len(majors)))
    return q.result(cex)


def replay_partition(ver, cp):
    cats = _cats(ver)
    return sum(1 for k in cats if len(k) == 2 and cp in cats[k]) == 1


def replay_major(ver, mj, cp):
    cats = _cats(ver)
    return (cp in cats[mj]) == any(cp in cats[k] for k in cats if len(k) == 2 and k[0] == mj)


@ob(engine='z3', budget=300, bound='every code point x every installable Unicode version: current (non-superseded) blocks pairwise disjoint',
    funcs=[U + ':UnicodeData.__init__', U + ':UnicodeData.block', 'elementpath/regex/unicode_blocks.py'])
def blocks_disjoint(ctx):
    import warnings
    q = Queries(timeout_s=120, diff_binary=False)
    x, rng = _bv()
    cex = []
    for ver in _us.UNICODE_VERSIONS:
        with warnings.catch_warnings():
            warnings.simplefilter('ignore')
            data = UnicodeData(ver, categories={}) if ver not in unicode_categories.UNICODE_VERSIONS else UnicodeData(ver)
        names = sorted(set(data._unicode_blocks.values()))
        mem = [_member(x, _ranges_of(data.block(nm.replace(' ', '').replace('_', ''))._codepoints)) for nm in names]
        # at most one block: x in block i implies x in no later block (one query per version: a chain of implications)
        later = z3.BoolVal(False)
        clash = []
        for mi in reversed(mem):
            clash.append(z3.And(mi, later))
            later = z3.Or(mi, later)
        known = [x != 0xFEFF] if tuple(int(v) for v in ver.split('.')) < (2, 1, 9) else []   # finding C13-blocks-feff
        res, m = q.check('%s: %d blocks pairwise disjoint' % (ver, len(names)), rng + known + [z3.Or(*clash)])
        if res == 'sat':
            cex.append(dict(call='replay_blocks(%r, %d)' % (ver, mval(m, x)), message='%s: code point %d in two blocks' % (ver, mval(m, x))))
    q.samples.append('versions=%d' % len(_us.UNICODE_VERSIONS))
    return q.result(cex)


@ob(engine='z3', budget=60, kind='witness', finding='C13-blocks-feff',
    bound='Unicode 2.0.0 .. 2.1.8 block tables at U+FEFF', funcs=['elementpath/regex/unicode_blocks.py:UNICODE_BLOCKS_VER_2_0_0'])
def blocks_disjoint_feff(ctx):
    import warnings
    q = Queries(timeout_s=60, diff_binary=False)
    x, rng = _bv()
    cex = []
    for ver in ('2.0.0', '2.1.8'):
        with warnings.catch_warnings():
            warnings.simplefilter('ignore')
            data = UnicodeData(ver, categories={})
        names = sorted(set(data._unicode_blocks.values()))
        mem = [_member(x, _ranges_of(data.block(nm.replace(' ', '').replace('_', ''))._codepoints)) for nm in names]
        res, m = q.check('%s: U+FEFF in at most one block' % ver, rng + [x == 0xFEFF, z3.Sum([z3.If(mi, 1, 0) for mi in mem]) > 1])
        if res == 'sat':
            cex.append(dict(call='replay_blocks(%r, %d)' % (ver, 0xFEFF), message='%s: U+FEFF in two blocks' % ver))
    q.samples.append('U+FEFF, versions 2.0.0 and 2.1.8')
    return q.result(cex)


def replay_blocks(ver, cp):
    import warnings
    with warnings.catch_warnings():
        warnings.simplefilter('ignore')
        data = UnicodeData(ver, categories={}) if ver not in unicode_categories.UNICODE_VERSIONS else UnicodeData(ver)
    n = 0
    for nm in set(data._unicode_blocks.values()):
        if cp in data.block(nm.replace(' ', '').replace('_', '')):
            n += 1
    return n <= 1


# --- added after seeded-change review: the block table of every installable version = fold of the per-version update tables ------

from elementpath.regex import unicode_blocks as _ub  # noqa: E402


def _expected_blocks(version):
    """independent fold of the block tables: base 2.0.0 + every UPDATE table with version <= the requested one, in version order"""
    vi = tuple(int(x) for x in version.split('.'))
    blocks = dict(_ub.UNICODE_BLOCKS_VER_2_0_0)
    updates = []
    for name in dir(_ub):
        if name.startswith('UPDATE_BLOCKS_VER_'):
            v = tuple(int(x) for x in name[18:].split('_'))
            updates.append((v, getattr(_ub, name)))
    for v, table in sorted(updates):
        if v <= vi:
            blocks.update(table)
    return {k.replace(' ', '').replace('_', ''): val for k, val in blocks.items()}


@ob(engine='z3', budget=300, bound='every code point x every block x all 32 installable versions: UnicodeData(version).block(name) = fold of the update tables up to that version',
    funcs=[U + ':UnicodeData.__init__ (version gating of UPDATE_BLOCKS_* / REMOVED_BLOCKS_*)', U + ':UnicodeData.block'])
def blocks_follow_version_tables(ctx):
    import warnings
    q = Queries(timeout_s=60, diff_binary=False)
    x, rng = _bv()
    cex = []
    for ver in _us.UNICODE_VERSIONS:
        with warnings.catch_warnings():
            warnings.simplefilter('ignore')
            data = UnicodeData(ver, categories={}) if ver not in unicode_categories.UNICODE_VERSIONS else UnicodeData(ver)
        want = _expected_blocks(ver)
        missing = sorted(set(want) - set(data._blocks))
        extra = sorted(set(data._blocks) - set(want) - {'NoBlock'})
        if missing or extra:
            nm = (missing or extra)[0]
            cex.append(dict(call='replay_block_table(%r, %r)' % (ver, nm), message='%s: block %s %s' % (ver, nm, 'missing' if missing else 'unexpected')))
            continue
        diffs = []
        for nm, spec in want.items():
            a = _ranges_of(data.block(nm)._codepoints)
            b = _ranges_of(UnicodeSubset(spec)._codepoints)
            diffs.append(_member(x, a) != _member(x, b))
        res, m = q.check('%s: %d blocks equal to the folded tables' % (ver, len(want)), rng + [z3.Or(*diffs)])
        if res == 'sat':
            cp = mval(m, x)
            bad = [nm for nm, spec in want.items() if (cp in data.block(nm)) != (cp in UnicodeSubset(spec))]
            cex.append(dict(call='replay_block_table(%r, %r)' % (ver, bad[0] if bad else ''), message='%s: block %s differs at U+%04X' % (ver, bad[:1], cp)))
    q.samples.append('versions=%d' % len(_us.UNICODE_VERSIONS))
    return q.result(cex)


def replay_block_table(ver, nm):
    import warnings
    with warnings.catch_warnings():
        warnings.simplefilter('ignore')
        data = UnicodeData(ver, categories={}) if ver not in unicode_categories.UNICODE_VERSIONS else UnicodeData(ver)
    want = _expected_blocks(ver)
    if nm not in want:
        return nm not in data._blocks
    try:
        got = data.block(nm)
    except KeyError:
        return False
    return got._codepoints == UnicodeSubset(want[nm])._codepoints


# --- CharacterClass: membership of a symbolic code point vs an independent oracle; histories that would expose shared state ---------

from elementpath.regex import CharacterClass  # noqa: E402
from verif_lib import rx as _rx  # noqa: E402


def _oracle_ranges(text):
    ir = _rx.XsdRef('[' + text + ']').parse()
    while ir[0] == 'cat' and len(ir[1]) == 1:
        ir = ir[1][0]
    assert ir[0] == 'set', ir[0]
    return ir[1]


def _in_ranges(x, rs):
    lo, hi = 0, len(rs)
    while lo < hi:
        mid = (lo + hi) // 2
        if rs[mid][1] < x:
            lo = mid + 1
        elif rs[mid][0] > x:
            hi = mid
        else:
            return True
    return False


CC_TEXTS = {'digits': '\\d', 'nondigit_a': 'a\\D', 'range': 'a-c', 'nonspace_blank': '\\S ', 'neg_digit_5': '\\d-[5]', 'lower_minus_vowels': 'a-z-[aeiou]',
            'not_a_D': '^a\\D', 'nonspace_minus': '\\S-[a7]', 'D5_minus_5': '\\D5-[5]', 'not_a_minus_Db': '^a-[\\Db]'}
_CCS = '''
@ob(budget=200, family='character-class', bound='class [{text}]: membership of every code point x equals the XSD reference; after complement() it is the negation',
    funcs=['elementpath/regex/character_classes.py:CharacterClass.add/complement/__isub__/__contains__'])
def charclass_{name}(x: int) -> bool:
    """
    pre: 0 <= x < 0x110000
    post: _
    """
    cc = _parse_class({text!r})
    want = _in_ranges(x, ORACLE[{name!r}])
    if (x in cc) != want:
        return False
    cc.complement()
    return (x in cc) == (not want)
'''


def _parse_class(text):
    """the same steps translate_pattern performs for a bracket expression: optional ^, optional -[subtraction]"""
    neg = text.startswith('^')
    body = text[1:] if neg else text
    sub = None
    if '-[' in body:
        body, rest = body.split('-[', 1)
        sub = rest[:-1]
    cc = CharacterClass(body)
    if neg:
        cc.complement()
    if sub is not None:
        cc -= _parse_class(sub)
    return cc


ORACLE = {k: _oracle_ranges(v) for k, v in CC_TEXTS.items()}
for _k, _v in CC_TEXTS.items():
    define(_CCS.format(name=_k, text=_v), globals())


def _mutation_history():
    """performed concretely, once, BEFORE the condition below runs: if a class aliased a cached/shared subset, the in-place
    operations below would corrupt what later fresh classes are built from"""
    a = CharacterClass(chr(92) + 'S')
    a -= CharacterClass('a7')
    b = CharacterClass(chr(92) + 'D')
    b -= CharacterClass('x')
    b.discard('.')
    c = CharacterClass(chr(92) + 'W')
    c.complement()
    c -= CharacterClass('_')
    d = CharacterClass(chr(92) + 'I')
    d -= CharacterClass('q')
    return a


_HIST_A = _mutation_history()


@ob(budget=200, bound='after a concrete history of in-place operations on classes built from negated escapes: FRESH classes [\\S], [\\s], [\\d], [\\D] and the Nd category still agree with the reference for every code point x',
    funcs=['elementpath/regex/character_classes.py:CharacterClass.add (shared cached subsets)', U + ':lazy_subset / unicode_category'])
def charclass_history_no_shared_state(x: int) -> bool:
    """
    pre: 0 <= x < 0x110000
    post: _
    """
    from elementpath.regex import unicode_category
    nd = _in_ranges(x, ORACLE['digits'])
    sp = x in (9, 10, 13, 32)
    return (x in CharacterClass(chr(92) + 'S')) == (not sp) and (x in CharacterClass(chr(92) + 's')) == sp and (x in CharacterClass(chr(92) + 'd')) == nd \
        and (x in CharacterClass(chr(92) + 'D')) == (not nd) and (x in unicode_category('Nd')) == nd and (x in _HIST_A) == (not sp and x not in (97, 55))


# --- added after round-2 seeded changes: the fallback category builder (used for Unicode versions without shipped tables) -----------

@ob(engine='z3', budget=120, bound='every code point x every category built by categories_fallback.get_unicodedata_categories(): equal to unicodedata, subcategories partition the code space, majors are unions',
    funcs=['elementpath/regex/categories_fallback.py:get_unicodedata_categories'])
def fallback_categories(ctx):
    from elementpath.regex import categories_fallback
    q = Queries(timeout_s=60, diff_binary=False)
    x, rng = _bv()
    cats = categories_fallback.get_unicodedata_categories()
    ref = _unicodedata_ranges()
    cex = []
    minors = sorted(k for k in cats if len(k) == 2)
    mem = {c: _member(x, _ranges_of(cats[c]._codepoints)) for c in cats}
    for c in minors:
        res, m = q.check('fallback %s = unicodedata' % c, rng + [mem[c] != _member(x, ref.get(c, []))])
        if res == 'sat':
            cex.append(dict(call='replay_fallback(%d, %r)' % (mval(m, x), c), message='fallback category %s wrong at U+%04X' % (c, mval(m, x))))
    for mj in sorted(k for k in cats if len(k) == 1):
        subs = [c for c in minors if c[0] == mj]
        res, m = q.check('fallback %s = union of subcategories' % mj, rng + [mem[mj] != z3.Or(*[mem[c] for c in subs])])
        if res == 'sat':
            cex.append(dict(call='replay_fallback(%d, %r)' % (mval(m, x), mj), message='fallback major category %s wrong' % mj))
    for c in minors:
        cps = cats[c]._codepoints
        if not _weak_invariant(cps):
            cex.append(dict(call='replay_fallback(%d, %r)' % (0, c), message='fallback category %s: entries unsorted or overlapping' % c))
    q.samples.append('categories=%d' % len(cats))
    return q.result(cex[:6])


def replay_fallback(cp, c):
    from elementpath.regex import categories_fallback
    cats = categories_fallback.get_unicodedata_categories()
    if not _weak_invariant(cats[c]._codepoints):
        return False
    cat = unicodedata.category(chr(cp))
    return (cp in cats[c]) == (cat == c if len(c) == 2 else cat[0] == c)


# --- added after round-3 seeded changes: string arguments with one-character ranges ('x-x'), as the historical block tables contain ------

_CH = ('a', 'c', 'x', chr(0xFEFF), chr(0x10330))


@ob(budget=150, bound='string argument lo-hi with lo <= hi from a table of 5 characters (indices chosen by the solver; lo = hi included) given to the '
                      'constructor, update, |=, -=, &= and ^=: the set is exactly [lo, hi] resp. the set-algebra result; the block tables of '
                      'the oldest installable Unicode version load',
    funcs=['elementpath/regex/codepoints.py:iterparse_character_subset', 'elementpath/regex/unicode_subsets.py:UnicodeSubset.__init__/update'])
def string_argument_ranges(i: int, j: int, cp: int) -> bool:
    """
    pre: 0 <= i <= j <= 4 and 0 <= cp <= 0x10FFFF
    post: _
    """
    lo = _CH[[k for k in range(5) if k == i][0]]
    hi = _CH[[k for k in range(5) if k == j][0]]
    arg = lo + '-' + hi
    inside = ord(lo) <= cp <= ord(hi)
    s1 = UnicodeSubset(arg)
    s2 = UnicodeSubset()
    s2.update(arg)
    s3 = UnicodeSubset('0-9')
    s3 |= arg
    s4 = UnicodeSubset([(0, 0x110000)])     # tuples are half-open
    s4 -= arg
    s5 = UnicodeSubset([(90, 131)])          # (&= walks the code points of its operand: keep it small)
    s5 &= arg
    return (cp in s1) == inside and (cp in s2) == inside and (cp in s3) == (inside or 48 <= cp <= 57) and (cp in s4) == (not inside) \
        and (cp in s5) == (inside and 90 <= cp <= 130) and len(s1) == ord(hi) - ord(lo) + 1


# --- added after round-4 seeded changes: in-place operators whose operand is the set itself ------------------------------------------------

@ob(budget=150, bound='S: any weakly-canonical subset with <= 3 entries (bounds anywhere in the code space), x any code point: S -= S and S ^= S empty the '
                      'set, S |= S and S &= S leave membership unchanged',
    funcs=[U + ':UnicodeSubset.__isub__/__ixor__/__ior__/__iand__'])
def inplace_operators_with_self(a0: int, a1: int, b0: int, b1: int, c0: int, c1: int, n: int, x: int) -> bool:
    """
    pre: 0 <= n <= 3 and 0 <= a0 < a1 < b0 < b1 < c0 < c1 <= 0x110000 and 0 <= x < 0x110000
    post: _
    """
    ent = [(a0, a1), (b0, b1), (c0, c1)][:n]
    inx = any(lo <= x < hi for lo, hi in ent)
    s1 = UnicodeSubset(list(ent))
    s1 -= s1
    s2 = UnicodeSubset(list(ent))
    s2 |= s2
    s3 = UnicodeSubset(list(ent))
    s3 ^= s3
    return (x not in s1) and len(s1) == 0 and (x in s2) == inx and (x not in s3) and len(s3) == 0
