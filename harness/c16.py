"""C16 — function items: closures, partial application, higher-order functions (DESIGN §4 C16)."""
from harness.common import ob, define, parse_all, ev, ElementPathError, err_code, XPathContext

F30 = 'elementpath/xpath30/_xpath30_functions.py'
INFO = dict(
    level='other',
    explanation='Bounded symbolic execution (CrossHair + z3) of enumerated function-item programs (closures created in for/let and '
                'called later, twice, in reverse order; named references; partial application; fold-left/right, for-each, filter, '
                'for-each-pair, apply, sort with key) through token.evaluate with captured values, arguments and sequences of <= 3 '
                'unbounded integers as solver variables, compared with the direct-call expansion computed in Python.',
    assumptions=['programs are enumerated (about 20 templates); values are symbolic', 'sequences of at most 3 items',
                 'collations in sort and function items crossing parser instances are outside'])
T = parse_all({
    'fold': 'fold-left($S, $z, function($a, $b) { $a + $b * $k })', 'sort': 'sort($S)', 'filter': 'filter($S, function($x) { $x gt $k })',
    'closure_for': '(for $i in ($p, $q) return function() { $i }) ! .()',
    'closure_for_rev': 'let $fs := for $i in ($p, $q) return function() { $i } return ($fs[2](), $fs[1](), $fs[2]())',
    'partial': 'let $f := function($a, $b) { $a - $b }, $g := $f(?, $y) return ($g($x), $g($z), $f($x, $y))',
    'partial_named': 'let $g := sum(?, $y) return ($g(()), $g($x))',
    'named': 'let $f := abs#1 return ($f($x), abs($x), $f($y))',
    'twice': 'let $mk := function($k) { function($v) { $v + $k } }, $f := $mk($x), $g := $mk($y) return ($f(1), $g(1), $f(1))',
    'capture_let': 'let $y := $x return let $f := function() { $y }, $y := $z return ($f(), $y)',
    'fep': 'for-each-pair($S, $R, function($a, $b) { $a * $b })', 'foldr': 'fold-right($S, $z, function($a, $b) { $a - $b })',
    'apply': 'apply(function($a, $b) { $a - $b }, [$x, $y])', 'sortkey': 'sort($S, (), function($v) { -$v })',
    'foreach': 'for-each($S, function($v) { $v * $k })', 'nested_call': 'let $f := function($a) { $a + 1 } return $f($f($f($x)))',
    'hof_arg': 'let $twice := function($f, $v) { $f($f($v)) } return $twice(function($a) { $a * $k }, $x)',
    'sort_stable': 'sort(($a, $b, $c), (), function($v) { $v idiv 10 })',
})


def _S(s0, s1, s2, n):
    return [s0, s1, s2][:n]


@ob(budget=120, bound='S: 0..3 unbounded ints; z unbounded; k in [-3,3]', funcs=[F30 + ':fold-left', F30 + ':fold-right'])
def folds(s0: int, s1: int, s2: int, n: int, z: int, k: int) -> bool:
    """
    pre: 0 <= n <= 3 and -3 <= k <= 3
    post: _
    """
    S = _S(s0, s1, s2, n)
    acc = z
    for v in S:
        acc = acc + v * k
    accr = z
    for v in reversed(S):
        accr = v - accr
    return ev(T['fold'], S=S, z=z, k=k) == [acc] and ev(T['foldr'], S=S, z=z) == [accr]


@ob(budget=120, bound='S: 0..3 unbounded ints: sort = sorted; sort with key = stable sort by key', funcs=[F30 + ':sort', 'elementpath/compare.py'])
def sorts(s0: int, s1: int, s2: int, n: int) -> bool:
    """
    pre: 0 <= n <= 3
    post: _
    """
    S = _S(s0, s1, s2, n)
    return ev(T['sort'], S=S) == sorted(S) and ev(T['sortkey'], S=S) == sorted(S, key=lambda v: -v)


@ob(budget=120, bound='a, b, c in [0, 39]: key = v idiv 10 has ties: stability', funcs=[F30 + ':sort'])
def sort_is_stable(a: int, b: int, c: int) -> bool:
    """
    pre: 0 <= a <= 39 and 0 <= b <= 39 and 0 <= c <= 39
    post: _
    """
    return ev(T['sort_stable'], a=a, b=b, c=c) == sorted([a, b, c], key=lambda v: v // 10)


@ob(budget=120, bound='S: 0..3, R: 0..2 unbounded ints; k unbounded', funcs=[F30 + ':filter', F30 + ':for-each', F30 + ':for-each-pair'])
def filter_foreach_pair(s0: int, s1: int, s2: int, n: int, r0: int, r1: int, m: int, k: int) -> bool:
    """
    pre: 0 <= n <= 3 and 0 <= m <= 2 and -3 <= k <= 3
    post: _
    """
    S = _S(s0, s1, s2, n)
    R = [r0, r1][:m]
    return ev(T['filter'], S=S, k=k) == [v for v in S if v > k] and ev(T['foreach'], S=S, k=k) == [v * k for v in S] \
        and ev(T['fep'], S=S, R=R) == [a * b for a, b in zip(S, R)]


@ob(budget=60, bound='x, y, z: all integers', funcs=['elementpath/xpath_tokens/functions.py:partial application', F30 + ':named function reference', F30 + ':apply'])
def partial_named_apply(x: int, y: int, z: int) -> bool:
    """
    post: _
    """
    return ev(T['partial'], x=x, y=y, z=z) == [x - y, z - y, x - y] and ev(T['named'], x=x, y=y) == [abs(x), abs(x), abs(y)] \
        and ev(T['apply'], x=x, y=y) == [x - y] and ev(T['partial_named'], x=x, y=y) == [y, x]


@ob(budget=60, bound='x: all integers; k in [-3,3]', funcs=[F30 + ':inline function', 'dynamic function call'])
def nested_calls(x: int, k: int) -> bool:
    """
    pre: -3 <= k <= 3
    post: _
    """
    return ev(T['nested_call'], x=x) == [x + 3] and ev(T['hof_arg'], x=x, k=k) == [x * k * k]


@ob(budget=60, bound='p, q: all integers: closures created in a for loop capture their own binding', funcs=[F30 + ':inline function (closure)'])
def closures_in_for(p: int, q: int) -> bool:
    """
    post: _
    """
    return ev(T['closure_for'], p=p, q=q) == [p, q] and ev(T['closure_for_rev'], p=p, q=q) == [q, p, q]


@ob(budget=60, bound='x, y: all integers: two function items from one function expression are independent', funcs=[F30 + ':inline function (closure)'])
def closures_independent(x: int, y: int) -> bool:
    """
    post: _
    """
    return ev(T['twice'], x=x, y=y) == [1 + x, 1 + y, 1 + x]


@ob(budget=60, bound='x, z: all integers: a closure keeps the binding of its creation scope when the name is re-bound later', funcs=[F30 + ':inline function (closure)'])
def closure_snapshot(x: int, z: int) -> bool:
    """
    post: _
    """
    return ev(T['capture_let'], x=x, z=z) == [x, z]


# --- added after seeded-change review: fn:sort over mixed numeric types (values exact quarters, decimals and doubles) -------------

from decimal import Decimal  # noqa: E402
T.update(parse_all({'sort_mixed': 'sort(($a, $b, $c))', 'sort_mixed_key': 'sort(($a, $b, $c), (), function($v) { -$v })'}))


@ob(budget=60, tbudget=900, kind='hunt', bound='three values k/4 with |k| <= 8, each as xs:decimal, xs:double or xs:integer (carrier chosen by the solver): sort returns an ordered permutation (Decimal/double: bug-hunting)',
    funcs=[F30 + ':sort', 'elementpath/compare.py:deep_compare'])
def sort_mixed_numeric(ka: int, kb: int, kc: int, ta: int, tb: int, tc: int) -> bool:
    """
    pre: all(-8 <= k <= 8 for k in (ka, kb, kc)) and all(0 <= t <= 2 for t in (ta, tb, tc))
    post: _
    """
    def mk(k, t):
        return Decimal(k) / 4 if t == 0 else (k / 4 if t == 1 else k // 4)
    vals = [mk(ka, ta), mk(kb, tb), mk(kc, tc)]
    r = ev(T['sort_mixed'], a=vals[0], b=vals[1], c=vals[2])
    rk = ev(T['sort_mixed_key'], a=vals[0], b=vals[1], c=vals[2])
    f = [float(x) for x in r]
    fk = [float(x) for x in rk]
    return f == sorted(float(v) for v in vals) and fk == sorted((float(v) for v in vals), reverse=True)


_SM = '''
@ob(budget=45, tbudget=600, kind='hunt', family='sort-mixed', bound='sort of {desc} with values k/4, |k| <= 8: ordered permutation (Decimal/double comparison: not exhaustible, bug-hunting)', funcs=[F30 + ':sort', 'elementpath/compare.py:deep_compare'])
def sort_mixed_{name}(ka: int, kb: int) -> bool:
    """
    pre: -8 <= ka <= 8 and -8 <= kb <= 8
    post: _
    """
    a, b = {ea}, {eb}
    r = ev(T['sort2'], a=a, b=b)
    return [float(x) for x in r] == sorted([float(a), float(b)])
'''
T.update(parse_all({'sort2': 'sort(($a, $b))'}))
for _n, (_ea, _eb, _d) in {'dec_dbl': ('Decimal(ka) / 4', 'kb / 4', '(xs:decimal, xs:double)'), 'dbl_dec': ('ka / 4', 'Decimal(kb) / 4', '(xs:double, xs:decimal)'),
                           'int_dbl': ('ka', 'kb / 4', '(xs:integer, xs:double)'), 'dec_int': ('Decimal(ka) / 4', 'kb', '(xs:decimal, xs:integer)')}.items():
    define(_SM.format(name=_n, ea=_ea, eb=_eb, desc=_d), globals())


# --- added after round-2 review: a function item survives partial application / repeated use; lexical scoping at the call site -----

T.update(parse_all({
    'partial_reuse': 'let $f := concat(?, $s), $g := concat($s, ?), $u := $f(?) return ($f("b"), $g("a"), $f("c"), $g("d"))',
    'partial_nested': 'let $f := concat(?, $s) return $f(?)("a")',
    'partial_two': 'let $f := function($a, $b, $c) { $a * 100 + $b * 10 + $c }, $g := $f(?, $y, ?) return ($g($x, $z), $g($z, $x), $f($x, $y, $z), $g($x, $x))',
    'lexical_call_site': 'let $x := $p, $f := function() { $x } return (let $x := $q return ($f(), $x), $f())',
    'lexical_param': 'let $x := $p, $f := function() { $x }, $g := function($x) { $f() + $x } return ($g($q), $f())',
    'lexical_fold': 'let $k := $p, $f := function($a, $b) { $a + $b * $k } return (let $k := $q return fold-left(($q, $p), 0, $f))',
}))


@ob(budget=120, bound='s: string of length <= 2; x, y, z: integers in [0, 9]: partial applications of one function item do not disturb it or each other',
    funcs=['elementpath/xpath30/_xpath30_operators.py:partial application', 'elementpath/xpath_tokens/functions.py'])
def partial_application_independent(s: str, x: int, y: int, z: int) -> bool:
    """
    pre: len(s) <= 2 and 0 <= x <= 9 and 0 <= y <= 9 and 0 <= z <= 9
    post: _
    """
    return ev(T['partial_reuse'], s=s) == ['b' + s, s + 'a', 'c' + s, s + 'd'] and \
        ev(T['partial_two'], x=x, y=y, z=z) == [x * 100 + y * 10 + z, z * 100 + y * 10 + x, x * 100 + y * 10 + z, x * 100 + y * 10 + x]


@ob(budget=120, bound='p, q: all integers: a closure sees the bindings of its creation scope even when the call site re-binds the same name (let, parameter, fold-left)',
    funcs=[F30 + ':_InlineFunction.__call__'])
def lexical_scoping_at_call_site(p: int, q: int) -> bool:
    """
    post: _
    """
    return ev(T['lexical_call_site'], p=p, q=q) == [p, q, p] and ev(T['lexical_param'], p=p, q=q) == [p + q, p] \
        and ev(T['lexical_fold'], p=p, q=q) == [q * p + p * p]


@ob(budget=60, kind='witness', finding='C16-partial-of-partial', bound='s: string of length <= 1: a partial application applied again with a placeholder',
    funcs=['elementpath/xpath30/_xpath30_operators.py:partial application', 'elementpath/xpath_tokens/functions.py:XPathFunction.__call__'])
def known_partial_of_partial(s: str) -> bool:
    """
    pre: len(s) <= 1
    post: _
    """
    return ev(T['partial_nested'], s=s) == ['a' + s]


# --- added after round-2 seeded changes: the collation argument of fn:sort is honoured with and without a key function --------------

CI = 'http://www.w3.org/2005/xpath-functions/collation/html-ascii-case-insensitive'
CP = 'http://www.w3.org/2005/xpath-functions/collation/codepoint'
T.update(parse_all({'sort_coll': 'sort(($a, $b, $c), $coll)', 'sort_coll_key': 'sort(($a, $b, $c), $coll, function($v) { $v })',
                    'sort_coll_key2': 'sort(($a, $b, $c), $coll, function($v) { concat($v, "x") })'}))
LET = ('a', 'A', 'b', 'B')


@ob(budget=300, bound='three one-letter strings from {a, A, b, B} (chosen by the solver), collation: code point or html-ascii-case-insensitive: sort is a stable ordered permutation under the collation, with and without a key function',
    funcs=[F30 + ':sort', 'elementpath/compare.py:get_key_function', 'elementpath/collations.py'])
def sort_honours_collation(i: int, j: int, k: int, ci: bool) -> bool:
    """
    pre: 0 <= i <= 3 and 0 <= j <= 3 and 0 <= k <= 3
    post: _
    """
    vals = [LET[i], LET[j], LET[k]]
    coll = CI if ci else CP
    want = sorted(vals, key=(lambda v: v.lower()) if ci else (lambda v: v))
    return ev(T['sort_coll'], a=vals[0], b=vals[1], c=vals[2], coll=coll) == want \
        and ev(T['sort_coll_key'], a=vals[0], b=vals[1], c=vals[2], coll=coll) == want \
        and ev(T['sort_coll_key2'], a=vals[0], b=vals[1], c=vals[2], coll=coll) == want


# --- added after round-3 seeded changes: function items passed INTO a partially applied higher-order function keep their closure ----------

T.update(parse_all({
    'partial_hof_closure': 'let $k := $p, $m := fold-left(?, 0, ?), $fs := (for $k in ($q, $r) return function($a, $x) { $a + $x * $k }) '
                           'return (for $f in $fs return $m(($x, $y), $f), $k)',
    'partial_hof_foreach': 'let $e := for-each(($x, $y), ?), $f := (let $k := $q return function($v) { $v + $k }) return ($e($f), $e(abs#1))',
    'partial_hof_named_called': 'let $g := abs#1, $u := $g($x), $e := for-each(($x, $y), ?) return ($u, $e($g))',
}))


@ob(budget=150, bound='x, y, p, q, r: unbounded integers: closures built in a for/let scope and passed later to a partially applied fold-left / '
                      'for-each (placeholder in the function position) see their captured values, not the call-site variables; a named '
                      'function item that was already called stays a function',
    funcs=['elementpath/xpath_tokens/functions.py:XPathFunction.__call__', 'elementpath/xpath30/_xpath30_operators.py:partial application'])
def partial_hof_keeps_closures(x: int, y: int, p: int, q: int, r: int) -> bool:
    """
    post: _
    """
    v = dict(x=x, y=y, p=p, q=q, r=r)
    return ev(T['partial_hof_closure'], **v) == [x * q + y * q, x * r + y * r, p] \
        and ev(T['partial_hof_foreach'], **v) == [x + q, y + q, abs(x), abs(y)] \
        and ev(T['partial_hof_named_called'], **v) == [abs(x), abs(x), abs(y)]


T.update(parse_all({
    'fold_zero_empty': '(count(fold-left((), (), function($a, $b) { $a })), count(fold-right((), (), function($a, $b) { $b })), count(array:fold-left([], (), function($a, $b) { $a })))',
    'fold_zero_seq': 'fold-left(($x, $y), ($p, $q), function($a, $b) { ($a, $b) })', 'fold_zero_seq_r': 'fold-right(($x, $y), ($p, $q), function($a, $b) { ($a, $b) })',
    'fold_zero_arr': 'array:fold-left([$x, ($y, $p)], (), function($a, $b) { ($a, $b) })', 'fold_zero_none': 'fold-left(($x, $y), (), function($a, $b) { ($b, $a) })',
}))


@ob(budget=120, bound='x, y, p, q: unbounded integers: the zero value of fold-left / fold-right / array:fold-left is a sequence of any length (empty, two '
                      'items): results equal the definitional expansion, an empty input returns the zero value (never a list holding None)',
    funcs=['elementpath/xpath30/_xpath30_functions.py:select__fold_left/select__fold_right', 'elementpath/xpath31/_xpath31_functions.py:array:fold-left/right'])
def fold_zero_is_a_sequence(x: int, y: int, p: int, q: int) -> bool:
    """
    post: _
    """
    v = dict(x=x, y=y, p=p, q=q)
    return ev(T['fold_zero_empty'], **v) == [0, 0, 0] and ev(T['fold_zero_seq'], **v) == [p, q, x, y] and ev(T['fold_zero_seq_r'], **v) == [x, y, p, q] \
        and ev(T['fold_zero_arr'], **v) == [x, y, p] and ev(T['fold_zero_none'], **v) == [y, x]


# --- added after round-4 seeded changes: for-each-pair stops at the shorter sequence; a named reference keeps the focus it was created under ---

T.update(parse_all({
    'fep_len': 'for-each-pair($A, $B, function($a, $b) { ($a, $b) })', 'fep_len_count': 'for-each-pair($A, $B, function($a, $b) { count(($a, $b)) })',
}))


@ob(budget=150, bound='A, B: sequences of 0..3 unbounded integers (lengths chosen by the solver): for-each-pair applies the function to min(|A|, |B|) pairs',
    funcs=['elementpath/xpath30/_xpath30_functions.py:select__for_each_pair'])
def for_each_pair_stops_at_the_shorter(a0: int, a1: int, a2: int, n: int, b0: int, b1: int, b2: int, m: int) -> bool:
    """
    pre: 0 <= n <= 3 and 0 <= m <= 3
    post: _
    """
    A, Bs = [a0, a1, a2][:n], [b0, b1, b2][:m]
    k = min(n, m)
    return ev(T['fep_len'], A=A, B=Bs) == [w for x, y in zip(A, Bs) for w in (x, y)] and ev(T['fep_len_count'], A=A, B=Bs) == [2] * k


import xml.etree.ElementTree as _CET16  # noqa: E402
T.update(parse_all({
    'ref_focus': 'let $fs := /r/* ! local-name#0 return (for $f in $fs return $f(), local-name())',
    'ref_focus_step': 'let $f := /r/*[2]/local-name#0, $g := (/r/*)[1]/string#0 return ($f(), $g(), /r/*[last()] ! ($f(), $g()))',
}))


@ob(budget=120, bound='element r with 3 children whose tags come from {a, b} and whose text is a digit (chosen by the solver): references to focus-dependent '
                      'functions (local-name#0, string#0) created under a path step or ! and called later return the values of THEIR focus',
    funcs=['elementpath/xpath30/_xpath30_operators.py:evaluate__function_reference', 'elementpath/xpath_tokens/functions.py:XPathFunction.__call__'])
def named_reference_keeps_its_focus(t0: bool, t1: bool, t2: bool, d: int) -> bool:
    """
    pre: 0 <= d <= 2
    post: _
    """
    tags = ['a' if t else 'b' for t in (t0, t1, t2)]
    r = _CET16.Element('r')
    for k, t in enumerate(tags):
        _CET16.SubElement(r, t).text = str((0 if d == 0 else 1 if d == 1 else 2) + k)
    d = 0 if d == 0 else 1 if d == 1 else 2
    from harness.common import XPathContext as _C, L as _L
    doc = _CET16.ElementTree(r)
    return _L(T['ref_focus'].evaluate(_C(doc, item=r))) == tags + ['r'] \
        and _L(T['ref_focus_step'].evaluate(_C(doc, item=r))) == [tags[1], str(d), tags[1], str(d)]
