"""C05 — evaluation is pure and repeatable; variable bindings are lexically scoped (DESIGN §4 C05)."""
import datetime
from harness.common import ob, define, parse_all, ev, L, ElementPathError, err_code, XPathContext, P2, P31, pyet, PLAIN
from elementpath import Selector, select, iter_select
from elementpath.datatypes import DateTime, Timezone

O2 = 'elementpath/xpath2/_xpath2_operators.py'
INFO = dict(
    level='other',
    explanation='Bounded symbolic execution (CrossHair + z3) of enumerated binding programs (for/let/some/every, nested re-binding, '
                'inline-function parameters shadowing outer variables, the variable read again after the construct, early-exit '
                'consumers of a for) with every variable VALUE a solver variable, over histories of 2-3 evaluations of the same token '
                'with different symbolic variable maps (A, B, A): each result equals the definitional value, the third equals the '
                'first, and the caller\'s variables dict has the same keys and values afterwards. Selector.select = list(iter_select) '
                'and input-tree immutability on a symbolic-label tree; date/time variables keep their timezone.',
    assumptions=['programs enumerated (about 20 templates), values symbolic (unbounded integers)', 'histories of length <= 3',
                 'schema objects and namespace maps mutated through third-party proxies are outside'])
T = parse_all({
    'for': '(for $x in ($a, $b) return $x + 1, $x)', 'let': '(let $x := $a return $x * 2) + $x',
    'some': '((some $x in ($a, $b) satisfies $x gt $k), $x)', 'every': '((every $x in ($a, $b) satisfies $x gt $k), $x)',
    'inline': 'let $f := function($x) { $x + $y } return ($f($a), $x)',
    'nested': 'for $x in ($a, $b) return ((let $x := $k return $x * 2), (for $x in ($k, $k + 1) return $x), $x)',
    'let_rebind': 'let $x := $a, $x := $x + 1 return ($x, $b)', 'for2': 'for $x in ($a, $b), $y in ($x, $k) return $x - $y',
    'exists_for': '(exists(for $x in ($a, $b) return $x), $x)', 'head_for': '(head(for $x in ($a, $b) return $x + 1), $x)',
    'quant_in_pred': '(($a, $b)[some $x in (., $k) satisfies $x gt 0], $x)',
    'inline_shadow': 'let $x := $a return (function($x) { $x * 2 }($b), $x)',
    'map_twice': 'let $m := map{1: $a} return ($m?1, map:put($m, 1, $b)?1, $m?1)',
})
T2 = parse_all({'for': '(for $x in ($a, $b) return $x + 1, $x)', 'some': '((some $x in ($a, $b) satisfies $x gt $k), $x)'}, parser=P2)


def _run(tok, v):
    """evaluate with a fresh context over the caller's dict; returns (result, caller dict unchanged?)"""
    snap = dict(v)
    r = L(tok.evaluate(XPathContext(item=1, variables=v)))
    return r, v == snap and list(v) == list(snap)


@ob(budget=120, bound='all integer values; history A, B, A of one token', funcs=[O2 + ':select__for_expression', 'elementpath/xpath_context.py'])
def for_scope_history(a: int, b: int, x: int, a2: int, b2: int, x2: int) -> bool:
    """
    post: _
    """
    r1, ok1 = _run(T['for'], {'a': a, 'b': b, 'x': x})
    r2, ok2 = _run(T['for'], {'a': a2, 'b': b2, 'x': x2})
    r3, ok3 = _run(T['for'], {'a': a, 'b': b, 'x': x})
    r4, ok4 = _run(T2['for'], {'a': a, 'b': b, 'x': x})
    return r1 == [a + 1, b + 1, x] and r2 == [a2 + 1, b2 + 1, x2] and r3 == r1 and r4 == r1 and ok1 and ok2 and ok3 and ok4


@ob(budget=120, bound='all integer values; history A, B, A', funcs=[O2 + ':let expression'])
def let_scope_history(a: int, x: int, a2: int, x2: int, b: int) -> bool:
    """
    post: _
    """
    r1, ok1 = _run(T['let'], {'a': a, 'x': x})
    r2, ok2 = _run(T['let'], {'a': a2, 'x': x2})
    r3, ok3 = _run(T['let'], {'a': a, 'x': x})
    r4, ok4 = _run(T['let_rebind'], {'a': a, 'b': b, 'x': x})
    return r1 == [2 * a + x] and r2 == [2 * a2 + x2] and r3 == r1 and r4 == [a + 1, b] and ok1 and ok2 and ok3 and ok4


@ob(budget=120, bound='all integer values', funcs=[O2 + ':some/every'])
def quantified_scope(a: int, b: int, k: int, x: int) -> bool:
    """
    post: _
    """
    v = {'a': a, 'b': b, 'k': k, 'x': x}
    r1, ok1 = _run(T['some'], v)
    r2, ok2 = _run(T['every'], v)
    r3, ok3 = _run(T2['some'], v)
    return r1 == [a > k or b > k, x] and r2 == [a > k and b > k, x] and r3 == r1 and ok1 and ok2 and ok3


@ob(budget=120, bound='all integer values', funcs=['elementpath/xpath30/_xpath30_functions.py:_InlineFunction.__call__'])
def inline_parameter_scope(a: int, b: int, x: int, y: int) -> bool:
    """
    post: _
    """
    r1, ok1 = _run(T['inline'], {'a': a, 'x': x, 'y': y})
    r2, ok2 = _run(T['inline_shadow'], {'a': a, 'b': b})
    r3, ok3 = _run(T['inline'], {'a': a, 'x': x, 'y': y})
    return r1 == [a + y, x] and r2 == [2 * b, a] and r3 == r1 and ok1 and ok2 and ok3


@ob(budget=120, bound='all integer values: nested re-binding of the same name, two-variable for', funcs=[O2 + ':select__for_expression'])
def nested_rebinding(a: int, b: int, k: int) -> bool:
    """
    post: _
    """
    r1, ok1 = _run(T['nested'], {'a': a, 'b': b, 'k': k})
    r2, ok2 = _run(T['for2'], {'a': a, 'b': b, 'k': k})
    return r1 == [2 * k, k, k + 1, a, 2 * k, k, k + 1, b] and r2 == [0, a - k, 0, b - k] and ok1 and ok2


@ob(budget=120, bound='all integer values: a for consumed by exists()/head() (early exit) must not leak its binding',
    funcs=[O2 + ':select__for_expression', 'fn:exists', 'fn:head'])
def early_exit_consumers(a: int, b: int, x: int, k: int) -> bool:
    """
    post: _
    """
    v = {'a': a, 'b': b, 'x': x, 'k': k}
    r1, ok1 = _run(T['exists_for'], v)
    r2, ok2 = _run(T['head_for'], v)
    r3, ok3 = _run(T['quant_in_pred'], v)
    want3 = [i for i in (a, b) if i > 0 or k > 0] + [x]
    return r1 == [True, x] and r2 == [a + 1, x] and r3 == want3 and ok1 and ok2 and ok3


@ob(budget=120, bound='all integer values: a variable not bound outside stays unbound after the construct (XPST0008)',
    funcs=[O2, 'elementpath/xpath_tokens/base.py'])
def unbound_after_construct(a: int, b: int, y: int) -> bool:
    """
    post: _
    """
    for key, v in (('for', {'a': a, 'b': b}), ('inline', {'a': a, 'y': y}), ('exists_for', {'a': a, 'b': b}), ('head_for', {'a': a, 'b': b})):
        try:
            T[key].evaluate(XPathContext(item=1, variables=v))
            return False
        except ElementPathError as e:
            if err_code(e) != 'XPST0008':
                return False
        if 'x' in v:
            return False
    return True


@ob(budget=120, bound='all integer values: a map bound to a variable read before and after map:put', funcs=['elementpath/xpath_tokens/maps.py'])
def map_value_repeatable(a: int, b: int) -> bool:
    """
    post: _
    """
    r1, ok1 = _run(T['map_twice'], {'a': a, 'b': b})
    r2, ok2 = _run(T['map_twice'], {'a': a, 'b': b})
    return r1 == [a, b, a] and r2 == r1 and ok1 and ok2


ET = pyet()
SEL = Selector('//b/following-sibling::*[1] | //a[@k]')


def _tree(t0, t1, t2, t3, k1):
    n = [ET.Element(t) for t in (t0, t1, t2, t3)]
    n[0].append(n[1])
    n[0].append(n[2])
    n[1].append(n[3])
    n[1].text = 'x'
    n[2].tail = 'y'
    if k1:
        n[1].set('k', 'v')
    return n


def _snapshot(n):
    return [(e.tag, dict(e.attrib), e.text, e.tail, [id(c) for c in e]) for e in n]


@ob(budget=200, bound='4-element tree, every tag in {a,b,c}, attribute present or not: Selector.select = list(iter_select), repeated, tree unchanged',
    funcs=['elementpath/xpath_selectors.py:Selector', 'elementpath/tree_builders.py'])
def selector_pure(t0: str, t1: str, t2: str, t3: str, k1: bool) -> bool:
    """
    pre: all(len(t) == 1 and 'a' <= t <= 'c' for t in (t0, t1, t2, t3))
    post: _
    """
    n = _tree(t0, t1, t2, t3, k1)
    doc = ET.ElementTree(n[0])
    before = _snapshot(n)
    r1 = SEL.select(doc)
    r2 = list(SEL.iter_select(doc))
    m = _tree(t3, t2, t1, t0, not k1)
    SEL.select(ET.ElementTree(m[0]))
    r3 = SEL.select(doc)
    ids = lambda r: [id(e) for e in r]   # noqa: E731
    return ids(r1) == ids(r2) == ids(r3) and _snapshot(n) == before


@ob(budget=120, tbudget=600, kind='hunt', bound='xs:dateTime variables without timezone, implicit timezone offset in [-840, 840] minutes: values unchanged after - and comparisons (datetime model: bug-hunting)',
    funcs=['elementpath/xpath_tokens/base.py:get_operands'])
def datetime_variables_unchanged(h1: int, h2: int, off: int) -> bool:
    """
    pre: 0 <= h1 <= 23 and 0 <= h2 <= 23 and -840 <= off <= 840
    post: _
    """
    d, e = DateTime(2000, 1, 1, h1), DateTime(2000, 1, 1, h2)
    ctx = XPathContext(item=1, variables={'d': d, 'e': e}, timezone=Timezone(datetime.timedelta(minutes=off)))
    r = L(T_DT['sub'].evaluate(ctx))
    lt = L(T_DT['lt'].evaluate(ctx))
    return d.tzinfo is None and e.tzinfo is None and lt == [h1 < h2] and r[0].seconds == (h1 - h2) * 3600


T_DT = parse_all({'sub': '$d - $e', 'lt': '$d lt $e'})


# --- added after seeded-change review: adjust-*-to-timezone and implicit timezone must not modify the caller's values -------------

from elementpath.datatypes import Date, Time, DayTimeDuration  # noqa: E402
T_ADJ = parse_all({'dt': 'adjust-dateTime-to-timezone($d)', 'dt2': 'adjust-dateTime-to-timezone($d, $z)', 'dte': 'adjust-dateTime-to-timezone($d, ())',
                   'd': 'adjust-date-to-timezone($e)', 't': 'adjust-time-to-timezone($t, $z)', 'again': '($d, adjust-dateTime-to-timezone($d), $d)'})
OFFS = (-840, -90, -30, 0, 30, 330, 840)


@ob(budget=60, tbudget=600, kind='hunt', bound='(bug-hunting: CrossHair reports non-determinism in the datetime model) xs:dateTime/date/time variables with/without a timezone (7 offsets chosen by the solver), implicit timezone and explicit target timezone from the same set: the caller\'s values keep their timezone and value',
    funcs=['elementpath/xpath_tokens/base.py:adjust_datetime', 'elementpath/xpath2/_xpath2_functions.py:adjust-*-to-timezone'])
def adjust_timezone_pure(has_tz: bool, oi: int, zi: int, ii: int) -> bool:
    """
    pre: 0 <= oi <= 6 and 0 <= zi <= 6 and 0 <= ii <= 6
    post: _
    """
    tz = Timezone(datetime.timedelta(minutes=OFFS[oi])) if has_tz else None
    d = DateTime(2000, 1, 1, 12, 0, 0, tzinfo=tz)
    e = Date(2000, 1, 1, tzinfo=tz)
    t = Time(12, 0, 0, tzinfo=tz)
    z = DayTimeDuration(seconds=OFFS[zi] * 60)
    v = {'d': d, 'e': e, 't': t, 'z': z}
    snap = (str(d), str(e), str(t))
    ctx = lambda: XPathContext(item=1, variables=v, timezone=Timezone(datetime.timedelta(minutes=OFFS[ii])))   # noqa: E731
    for k in ('dt', 'dt2', 'dte', 'd', 't'):
        T_ADJ[k].evaluate(ctx())
        if (str(d), str(e), str(t)) != snap or d.tzinfo is not tz or e.tzinfo is not tz or t.tzinfo is not tz:
            return False
    r = L(T_ADJ['again'].evaluate(ctx()))
    return str(r[0]) == snap[0] and str(r[2]) == snap[0]


# --- added after round-2 seeded changes: stored sequences are not extended in place; closures are lexically scoped --------------------

T3 = parse_all({
    'map_seq': "let $m := map{'a': ($a, $b)}, $n := map:put($m, 'a', ($m('a'), $c)) return (count($m('a')), count($n('a')), $m('a'), $n('a'))",
    'arr_seq': "let $r := [($a, $b), $c], $s := ($r(1), $c), $t := (array:get($r, 1), $s) return (count($r(1)), count($s), count($t), $r(1))",
    'map_get': "let $m := map{1: ($a, $b), 2: ()} return (count((map:get($m, 1), $c)), count((map:get($m, 2), $c, $c)), count($m(1)), count($m(2)))",
    'mk_map': "map{'a': ($a, $b), 'e': ()}", 'mk_arr': "[($a, $b), ()]",
    'use_map': "(count(($m('a'), $c)), count(($m('e'), $c)), $m('a'), count($m('e')))",
    'use_arr': "(count(($m(1), $c)), count(($m(2), $c)), $m(1), count($m(2)))",
    'closure_let': 'let $x := $a, $f := function() { $x } return (let $x := $b return $f(), for $x in ($b, $k) return $f(), $x)',
    'closure_param': 'let $x := $a, $f := function($y) { $x + $y }, $g := function($x) { $f($x) } return ($g($b), (some $x in ($k) satisfies $f(0) = $x), $x)',
    'closure_caller': 'let $f := function() { $x } return (let $x := $b return $f(), $x)',
})


@ob(budget=120, bound='all integer values: a sequence stored in a map/array built by the expression, used as first operand of the comma operator',
    funcs=[O2 + ':evaluate__comma_operator', 'elementpath/xpath_tokens/maps.py', 'elementpath/xpath_tokens/arrays.py'])
def stored_sequence_not_extended(a: int, b: int, c: int) -> bool:
    """
    post: _
    """
    v = {'a': a, 'b': b, 'c': c}
    r1, ok1 = _run(T3['map_seq'], v)
    r2, ok2 = _run(T3['arr_seq'], v)
    r3, ok3 = _run(T3['map_get'], v)
    return (r1 == [2, 3, a, b, a, b, c] and r2 == [2, 3, 5, a, b] and r3 == [3, 2, 2, 0] and ok1 and ok2 and ok3
            and _run(T3['map_seq'], v)[0] == r1 and _run(T3['arr_seq'], v)[0] == r2)


@ob(budget=120, bound='all integer values: a map / array item passed in by the caller as a variable, read by two evaluations of one token',
    funcs=[O2 + ':evaluate__comma_operator', 'elementpath/xpath_tokens/maps.py:XPathMap.__call__', 'elementpath/xpath_tokens/arrays.py:XPathArray.__call__'])
def caller_map_and_array_unchanged(a: int, b: int, c: int) -> bool:
    """
    post: _
    """
    m = T3['mk_map'].evaluate(XPathContext(item=1, variables={'a': a, 'b': b}))
    r = T3['mk_arr'].evaluate(XPathContext(item=1, variables={'a': a, 'b': b}))
    if isinstance(m, list):
        m = m[0]
    if isinstance(r, list):
        r = r[0]
    for tok, item in ((T3['use_map'], m), (T3['use_arr'], r)):
        v = {'m': item, 'c': c}
        for _ in range(2):
            got, ok = _run(tok, v)
            if got != [3, 1, a, b, 0] or not ok or v['m'] is not item:
                return False
    return True


@ob(budget=120, bound='all integer values: a function item called inside let / for / some / another function that re-binds the captured name',
    funcs=['elementpath/xpath30/_xpath30_functions.py:_InlineFunction.__call__', 'elementpath/xpath_context.py'])
def closure_lexically_scoped(a: int, b: int, k: int, x: int) -> bool:
    """
    post: _
    """
    v = {'a': a, 'b': b, 'k': k, 'x': x}
    r1, ok1 = _run(T3['closure_let'], v)
    r2, ok2 = _run(T3['closure_param'], v)
    r3, ok3 = _run(T3['closure_caller'], v)
    return r1 == [a, a, a, a] and r2 == [a + b, a == k, a] and r3 == [x, x] and ok1 and ok2 and ok3


# --- added after defects reported during round 3: binding expressions neither see later bindings nor move the focus ------------------

T3.update(parse_all({
    'range_scope_for': 'for $u in (1 to 2) ! ($x + .), $x in ($p, $q) return $u',
    'range_scope_some': 'some $u in (1 to 2) ! ($x + .), $x in ($p, $q) satisfies $u = $k',
    'range_scope_every': 'every $u in (1 to 2) ! ($x + .), $x in ($p, $q) satisfies $u le $k',
    'let_focus': 'let $v := //a, $w := count(/*/*) return (local-name(.), count($v), $w)',
    'for_focus': 'for $v in (//a)[1] return local-name(.)',
    'let_focus_twice': '(let $v := //b return local-name(.), local-name(.))',
}))


@ob(budget=150, bound='all integer values: the first range expression of for/some/every is a lazily evaluated map over an outer variable that a '
                      'later clause re-binds: it sees the OUTER value for every item',
    funcs=['elementpath/xpath_context.py:XPathContext.iter_product', O2 + ':select__for_expression', O2 + ':evaluate__quantified_expressions'])
def range_expressions_see_outer_bindings(x: int, p: int, q: int, k: int) -> bool:
    """
    post: _
    """
    v = {'x': x, 'p': p, 'q': q, 'k': k}
    r1, ok1 = _run(T3['range_scope_for'], v)
    r2, ok2 = _run(T3['range_scope_some'], v)
    r3, ok3 = _run(T3['range_scope_every'], v)
    return r1 == [x + 1, x + 1, x + 2, x + 2] and r2 == [k in (x + 1, x + 2)] and r3 == [x + 2 <= k] and ok1 and ok2 and ok3


@ob(budget=200, bound='4-element tree r(x(z), y), every tag in {a,b}; context item = each of the 4 elements (chosen by the solver): a let/for '
                      'clause whose binding expression is a path from the root does not move the focus of the return expression',
    funcs=['elementpath/xpath30/_xpath30_operators.py:select__let_expression', O2 + ':select__for_expression'])
def binding_expressions_keep_focus(t0: str, t1: str, t2: str, t3: str, ci: int) -> bool:
    """
    pre: all(len(t) == 1 and 'a' <= t <= 'b' for t in (t0, t1, t2, t3)) and 0 <= ci <= 3
    post: _
    """
    n = _tree(t0, t1, t2, t3, False)
    doc = ET.ElementTree(n[0])
    tags = [t0, t1, t2, t3]
    item = n[[k for k in range(4) if k == ci][0]]
    na = len([t for t in tags if t == 'a'])
    here = item.tag
    run = lambda key: L(T3[key].evaluate(XPathContext(doc, item=item)))   # noqa: E731
    return run('let_focus') == [here, na, 2] and run('for_focus') == ([here] if na else []) and run('let_focus_twice') == [here, here]


# --- added after round-3 seeded changes: a map constructor used as a function item is re-evaluated; prefixed binding variables ------------

T3.update(parse_all({'map_fn': 'for-each((1, 2), map{1: $a, 2: $b})', 'map_fn_filter': 'filter((1, 2, 3), map{1: $a gt $b, 2: true(), 3: $a lt $b})'}))
P31NS = P31.__class__(namespaces={'p': 'urn:p'})
T4 = parse_all({'for_p': '(for $p:x in ($a, $b) return $p:x + 1, $p:x)', 'let_p': '(let $p:x := $a return $p:x, $p:x)',
                'some_p': '((some $p:x in ($a, $b) satisfies $p:x = $a), $p:x)', 'fn_p': '(function($p:x) { $p:x * 2 }($b), $p:x)'}, parser=P31NS)


@ob(budget=120, bound='all integer values; history A, B, A of one token whose map constructor is applied as a function item (for-each, filter)',
    funcs=['elementpath/xpath_tokens/maps.py:XPathMap.__call__', 'elementpath/xpath_tokens/maps.py:XPathMap._evaluate'])
def map_constructor_as_function_repeatable(a: int, b: int, a2: int, b2: int) -> bool:
    """
    post: _
    """
    out = []
    for x, y in ((a, b), (a2, b2), (a, b)):
        r1, ok1 = _run(T3['map_fn'], {'a': x, 'b': y})
        r2, ok2 = _run(T3['map_fn_filter'], {'a': x, 'b': y})
        if r1 != [x, y] or r2 != [k for k, keep in ((1, x > y), (2, True), (3, x < y)) if keep] or not ok1 or not ok2:
            return False
        out.append((r1, r2))
    return out[0] == out[2]


@ob(budget=120, bound='all integer values: binding variables with a prefixed name ($p:x) while the caller supplies the same QName in expanded '
                      'form ({urn:p}x): the inner binding shadows it inside, the caller value is seen outside and is unchanged',
    funcs=['elementpath/xpath_tokens/tokens.py:VariableToken.evaluate', O2 + ':select__for_expression'])
def prefixed_binding_shadows_outer(a: int, b: int, k: int) -> bool:
    """
    post: _
    """
    v = {'{urn:p}x': k, 'a': a, 'b': b}
    r1, ok1 = _run(T4['for_p'], v)
    r2, ok2 = _run(T4['let_p'], v)
    r3, ok3 = _run(T4['some_p'], v)
    r4, ok4 = _run(T4['fn_p'], v)
    return r1 == [a + 1, b + 1, k] and r2 == [a, k] and r3 == [True, k] and r4 == [b * 2, k] and ok1 and ok2 and ok3 and ok4


# --- added after defects reported during round 4: early-exit consumers (exists / head / quantifiers) over axis steps and filters must leave
#     the focus where it was: siblings in one expression and repeated evaluations on ONE context object see the same item -----------------

T3.update(parse_all({
    'sib_array': '[exists(*[1]), local-name()]?*', 'sib_map': 'map{"a": exists(descendant::a), "b": local-name()}?b',
    'sib_is': 'head(descendant::*) is head(descendant::*)', 'sib_if': '(1, 2, 3) ! (if (position() = 1) then exists(($p, $q, $p)[. gt $k]) else last())',
    'sib_seq': '(exists(*[2]), local-name(), head(ancestor-or-self::*) is /*, local-name())',
    'sib_quant': '((some $e in * satisfies local-name($e) = "a"), local-name(), (every $e in descendant::* satisfies $e), local-name())',
    'rep_head': 'head(descendant::*) ! local-name()', 'rep_exists': '(exists(following-sibling::*), local-name(.))',
}))


@ob(budget=300, bound='4-element tree r(x(z), y), every tag in {a,b}; context item = each of the 4 elements (chosen by the solver); p, q, k unbounded '
                      'integers: after exists()/head()/some/every over an axis step or a filter the following sibling expressions see the outer '
                      'focus, and three evaluations of one token on ONE XPathContext give the same result and leave item/axis/position/size',
    funcs=['elementpath/xpath_context.py:iter_children_or_self/iter_descendants/... (axis iterators)', 'elementpath/xpath_tokens/base.py:select_with_focus'])
def early_exit_leaves_focus(t0: str, t1: str, t2: str, t3: str, ci: int, p: int, q: int, k: int) -> bool:
    """
    pre: all(len(t) == 1 and 'a' <= t <= 'b' for t in (t0, t1, t2, t3)) and 0 <= ci <= 3
    post: _
    """
    n = _tree(t0, t1, t2, t3, False)
    doc = ET.ElementTree(n[0])
    tags = [t0, t1, t2, t3]
    ci = [j for j in range(4) if j == ci][0]
    item = n[ci]
    here = tags[ci]
    kids = {0: [1, 2], 1: [3], 2: [], 3: []}[ci]
    desc = {0: [1, 3, 2], 1: [3], 2: [], 3: []}[ci]
    v = {'p': p, 'q': q, 'k': k}
    run = lambda key: L(T3[key].evaluate(XPathContext(doc, item=item, variables=v)))   # noqa: E731
    if run('sib_array') != [len(kids) > 0, here] or run('sib_map') != [here] or run('sib_is') != ([True] if desc else []):
        return False
    if run('sib_if') != [p > k or q > k, 3, 3]:
        return False
    if run('sib_seq') != [len(kids) > 1, here, True, here]:
        return False
    if run('sib_quant') != [any(tags[j] == 'a' for j in kids), here, True, here]:
        return False
    # one context object, three evaluations
    ctx = XPathContext(doc, item=item, variables=v)
    before = (ctx.item, ctx.axis, ctx.position, ctx.size)
    for key, want in (('rep_head', [tags[desc[0]]] if desc else []), ('rep_exists', [ci == 1, here])):
        for _ in range(3):
            if L(T3[key].evaluate(ctx)) != want or (ctx.item, ctx.axis, ctx.position, ctx.size) != before:
                return False
    return True


T3.update(parse_all({'abs_seq': '(count(/*), local-name(), count(//a), local-name(), /* is ., local-name())',
                     'abs_cmp': '(. is /*, /* is ., (//*)[1] is ., local-name())', 'abs_pred': 'count(//*[count(//a) = count(//a)])'}))


@ob(budget=200, bound='4-element tree r(x(z), y), every tag in {a,b}; context item = each of the 4 elements (chosen by the solver): absolute paths '
                      '(/x, //x, also inside predicates and on either side of is) leave the focus of the enclosing expression and of a reused '
                      'context object where it was',
    funcs=['elementpath/xpath1/_xpath1_operators.py:select__child_path/select__descendant_path (one operand)'])
def absolute_paths_keep_focus(t0: str, t1: str, t2: str, t3: str, ci: int) -> bool:
    """
    pre: all(len(t) == 1 and 'a' <= t <= 'b' for t in (t0, t1, t2, t3)) and 0 <= ci <= 3
    post: _
    """
    n = _tree(t0, t1, t2, t3, False)
    doc = ET.ElementTree(n[0])
    tags = [t0, t1, t2, t3]
    ci = [j for j in range(4) if j == ci][0]
    here = tags[ci]
    na = len([t for t in tags if t == 'a'])
    ctx = XPathContext(doc, item=n[ci])
    before = (ctx.item, ctx.axis, ctx.position, ctx.size)
    for _ in range(2):
        if L(T3['abs_seq'].evaluate(ctx)) != [1, here, na, here, ci == 0, here]:
            return False
        if L(T3['abs_cmp'].evaluate(ctx)) != [ci == 0, ci == 0, ci == 0, here] or L(T3['abs_pred'].evaluate(ctx)) != [4]:
            return False
        if (ctx.item, ctx.axis, ctx.position, ctx.size) != before:
            return False
    return True


# --- added after round-4 seeded changes: module-level select / iter_select forward the same arguments; let bindings do not outlive the let ---

import elementpath as _EP  # noqa: E402
TZS = ('+05:00', '-03:30', 'Z', '+14:00')
T3.update(parse_all({
    'let_bang': '((let $x := $a return $b) ! $x, $x)', 'let_array': '[let $x := $a return $x, $x]?*', 'let_map': 'map{"p": (let $x := $a return $x), "q": $x}?q',
    'let_path': '(let $x := $a return .) ! ($x + $b)', 'let_then': '(let $x := $a return $x)', 'after_let': '$x',
}))


@ob(budget=150, bound='timezone from a table of 4 (index chosen by the solver), variable value unbounded: elementpath.select() and list(elementpath.iter_select()) '
                      'with the same root, variables, item and timezone arguments return the same items (implicit-timezone(), variables)',
    funcs=['elementpath/xpath_selectors.py:select', 'elementpath/xpath_selectors.py:iter_select'])
def module_select_equals_iter_select(ti: int, a: int) -> bool:
    """
    pre: 0 <= ti <= 3
    post: _
    """
    tz = TZS[[k for k in range(4) if k == ti][0]]
    r = ET.Element('r')
    ET.SubElement(r, 'b')
    out = []
    for expr in ('string(implicit-timezone())', '($a + 1, count(//b), string(implicit-timezone()))', 'b'):
        kw = dict(parser=P31.__class__, variables={'a': a}, timezone=tz)
        s1 = _EP.select(r, expr, **kw)
        s1 = s1 if isinstance(s1, list) else [s1]        # select() returns a single atomic result as a bare value (documented)
        s2 = list(_EP.iter_select(r, expr, **kw))
        if [getattr(x, 'tag', x) for x in s1] != [getattr(x, 'tag', x) for x in s2]:
            return False
        out.append(s1)
    want = {'+05:00': 'PT5H', '-03:30': '-PT3H30M', 'Z': 'PT0S', '+14:00': 'PT14H'}[tz]
    return out[0] == [want] and out[1] == [a + 1, 1, want]


@ob(budget=150, bound='all integer values: a let expression used as the left operand of !, as a member of an array or map constructor, or evaluated '
                      'on a context that is used again: its binding is not visible afterwards and the caller\'s $x is unchanged',
    funcs=['elementpath/xpath30/_xpath30_operators.py:select__let_expression', 'elementpath/xpath_context.py:XPathContext.__copy__'])
def let_binding_does_not_outlive_the_let(a: int, b: int, x: int) -> bool:
    """
    post: _
    """
    v = {'a': a, 'b': b, 'x': x}
    for key, want in (('let_bang', [x, x]), ('let_array', [a, x]), ('let_map', [x]), ('let_path', [x + b])):
        r, ok = _run(T3[key], v)
        if r != want or not ok:
            return False
    ctx = XPathContext(item=1, variables=dict(v))
    if L(T3['let_then'].evaluate(ctx)) != [a] or L(T3['after_let'].evaluate(ctx)) != [x] or ctx.variables != v:
        return False
    return True


# --- added after the round-4 baseline reports: functions that consume two sequences in parallel give each operand its own focus ---------------

T3.update(parse_all({
    'par_de': '(deep-equal(*, *), deep-equal(*/local-name(), */local-name()), deep-equal(descendant::*, descendant::*), deep-equal(*, descendant::*), local-name(.))',
    'par_fep': '(for-each-pair(*, *, function($x, $y) { $x is $y }), local-name(.))',
    'par_fep_names': 'for-each-pair(descendant::*, */local-name(), function($x, $y) { concat(local-name($x), $y) })',
    'par_bind': 'deep-equal(for $e in * return local-name($e), for $e in descendant::* return local-name($e))',
}))


@ob(budget=300, bound='4-element tree r(x(z), y), every tag in {a,b}; context item = each of the 4 elements (chosen by the solver): deep-equal and for-each-pair over '
                      'two relative paths from the same context item see both sequences in full (deep-equal(E, E) is true; for-each-pair pairs the k-th items), '
                      'also with range variables of the same name in both operands; the focus afterwards is the outer one',
    funcs=['elementpath/xpath2/_xpath2_functions.py:evaluate__deep_equal', 'elementpath/xpath30/_xpath30_functions.py:select__for_each_pair'])
def parallel_operands_have_own_focus(t0: str, t1: str, t2: str, t3: str, ci: int) -> bool:
    """
    pre: all(len(t) == 1 and 'a' <= t <= 'b' for t in (t0, t1, t2, t3)) and 0 <= ci <= 3
    post: _
    """
    n = _tree(t0, t1, t2, t3, False)
    doc = ET.ElementTree(n[0])
    tags = [t0, t1, t2, t3]
    ci = [j for j in range(4) if j == ci][0]
    item, here = n[ci], tags[ci]
    kids = {0: [1, 2], 1: [3], 2: [], 3: []}[ci]
    desc = {0: [1, 3, 2], 1: [3], 2: [], 3: []}[ci]
    run = lambda key: L(T3[key].evaluate(XPathContext(doc, item=item)))   # noqa: E731
    if run('par_de') != [True, True, True, kids == desc, here]:
        return False
    if run('par_fep') != [True] * len(kids) + [here]:
        return False
    if run('par_fep_names') != [tags[d] + tags[k] for d, k in zip(desc, kids)]:
        return False
    return run('par_bind') == [[tags[k] for k in kids] == [tags[d] for d in desc]]
