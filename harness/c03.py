"""C03 — parse and evaluate fail only with ElementPathError; parsers stay reusable (DESIGN §4 C03)."""
from decimal import Decimal
from harness.common import ob, define, parse_all, L, P1, P2, P30, P31, XPathContext, ElementPathError, XPath1Parser, XPath2Parser
from elementpath.xpath31 import XPath31Parser

INFO = dict(
    level='other',
    explanation='Bounded symbolic execution (CrossHair + z3): every template of an enumerated family (arithmetic and comparison '
                'operators, casts, 45 built-in functions) is evaluated through token.evaluate with arguments of every carrier '
                '(integer, exact decimal k/4, exact double k/4, string of length <= 2, boolean, empty and two-item sequences, also '
                'deliberately ill-typed) as solver variables: the call must return or raise ElementPathError - any other exception '
                '(TypeError, AttributeError, decimal.*, IndexError, AssertionError ...) is a counterexample. Parse half: the body of a '
                'string literal is a symbolic string (length <= 2): parse returns or raises ElementPathError and afterwards the same '
                'parser instance parses a fixed expression exactly as a fresh instance does.',
    assumptions=['"for every input string" is claimed only for lexeme bodies inside fixed templates: symbolic source text does not get '
                 'through the tokenizer regex under CrossHair', 'RecursionError and hangs are not expressible as post-conditions over '
                 'bounded paths', 'argument carriers enumerated, values symbolic'])
OPS = ['$a + $b', '$a - $b', '$a * $b', '$a div $b', '$a idiv $b', '$a mod $b', '-$a', '$a eq $b', '$a lt $b', '$a = $b', '$a < $b',
       '$a to $b', '$a and $b', '$a || $b', '($a, $b)[$a]', '$a ! $b', '$a cast as xs:integer', '$a castable as xs:date',
       '$a instance of xs:string', 'if ($a) then $b else $a', '$a treat as xs:decimal']
FUNCS = ['abs($a)', 'ceiling($a)', 'floor($a)', 'round($a)', 'round($a, $b)', 'round-half-to-even($a, $b)', 'string($a)', 'number($a)',
         'boolean($a)', 'not($a)', 'string-length($a)', 'substring($a, $b)', 'substring($a, $b, $b)', 'concat($a, $b)',
         'contains($a, $b)', 'starts-with($a, $b)', 'substring-before($a, $b)', 'translate($a, $b, $a)', 'normalize-space($a)',
         'upper-case($a)', 'codepoints-to-string($a)', 'string-to-codepoints($a)', 'compare($a, $b)', 'string-join(($a, $b), $a)',
         'tokenize($a, $b)', 'matches($a, $b)', 'replace($a, $b, $a)', 'sum(($a, $b))', 'avg(($a, $b))', 'max(($a, $b))', 'min(($a, $b))',
         'count(($a, $b))', 'index-of(($a, $b), $a)', 'subsequence(($a, $b), $a, $b)', 'remove(($a, $b), $a)', 'insert-before(($a, $b), $a, $b)',
         'distinct-values(($a, $b))', 'reverse(($a, $b))', 'exactly-one(($a, $b))', 'zero-or-one($a)', 'xs:integer($a)', 'xs:decimal($a)',
         'xs:double($a)', 'xs:date($a)', 'xs:boolean($a)', 'xs:dayTimeDuration($a)', 'format-number($a, $b)', 'array:get([$a, $b], $a)',
         'map:get(map{$a: $b}, $a)', 'math:sqrt($a)', 'math:pow($a, $b)', 'deep-equal($a, $b)', 'head(($a, $b))', 'codepoint-equal($a, $b)']
TOK = {}
for _e in OPS + FUNCS:
    try:
        TOK[_e] = P31.parse(_e)
    except ElementPathError:
        pass       # a template that the parser rejects statically is not part of the family


def _call(expr, a, b):
    try:
        TOK[expr].evaluate(XPathContext(item=1, variables={'a': a, 'b': b}))
    except ElementPathError:
        pass
    return True


CARRIERS = {
    'int_int': ('a: int, b: int', '-4 <= a <= 4 and -4 <= b <= 4', 'a', 'b', 'integers in [-4,4]'),
    'dec_dec': ('a: int, b: int', '-4 <= a <= 4 and -4 <= b <= 4', 'Decimal(a) / 4', 'Decimal(b) / 4', 'exact decimals k/4, |k| <= 4'),
    'dbl_int': ('a: int, b: int', '-4 <= a <= 4 and -4 <= b <= 4', 'a / 4', 'b', 'exact doubles k/4 and integers, |k| <= 4'),
    'int_dec': ('a: int, b: int', '-4 <= a <= 4 and -4 <= b <= 4', 'a', 'Decimal(b) / 4', 'integers and exact decimals, |k| <= 4'),
    'str_str': ('a: str, b: str', 'len(a) <= 2 and len(b) <= 2', 'a', 'b', 'strings of length <= 2'),
    'str_int': ('a: str, b: int', 'len(a) <= 2 and -3 <= b <= 3', 'a', 'b', 'string of length <= 2 and integer in [-3,3]'),
    'int_str': ('a: int, b: str', '-3 <= a <= 3 and len(b) <= 2', 'a', 'b', 'integer in [-3,3] and string of length <= 2'),
    'bool_seq': ('a: bool, b: int', '-2 <= b <= 2', 'a', '[b, b]', 'boolean and a two-item integer sequence'),
    'empty_int': ('a: int, b: int', '-2 <= b <= 2 and a == 0', '[]', 'b', 'empty sequence and integer'),
}
_SRC = '''
@ob(budget={budget}, tbudget=300, kind={kind!r}, tier={tier!r}, family='only-elementpath-errors', bound={bound!r},
    funcs=['elementpath/xpath_tokens/base.py:XPathToken.error/get_argument', 'operator and function evaluate methods'])
def only_epe_{name}({sig}) -> bool:
    """
    pre: {pre}
    post: _
    """
    return _call({expr!r}, {ea}, {eb})
'''
_k = 0
for _expr in OPS + FUNCS:
    if _expr not in TOK:
        continue
    for _cn, (_sig, _pre, _ea, _eb, _what) in CARRIERS.items():
        _k += 1
        _name = '%03d_%s' % (_k, _cn)
        # quick tier: a rotating sixth of the (template, carrier) pairs plus every arithmetic operator on numeric carriers
        _quick = (_k % 6 == 0) or (_expr in OPS[:7] and _cn in ('int_int', 'dec_dec', 'dbl_int', 'int_dec'))
        _hunt = _cn in ('dbl_int', 'dec_dec', 'int_dec', 'str_int')     # Decimal/float/str->int paths realise: bug-hunting only
        _hunt = _hunt or (_expr == '$a div $b' and _cn == 'int_int')    # integer div yields xs:decimal: the Decimal model keeps forking (not exhausted in 300 s)
        define(_SRC.format(tier='quick' if _quick else 'thorough', kind='hunt' if _hunt else 'main', budget=45 if _hunt else 150, name=_name, sig=_sig, pre=_pre, expr=_expr, ea=_ea, eb=_eb,
                           bound='%s with %s' % (_expr, _what)), globals())


# --- parse half: lexeme bodies --------------------------------------------------------------------------------------------

def _tree(tok):
    return tok.tree if hasattr(tok, 'tree') else repr(tok)


FIXED = ["concat('u', 'v') = 'uv'", "a/b[2] | //c", "1 + 2 * 3"]
_LEX = '''
@ob(budget={budget}, tbudget=900, kind={kind!r}, bound={bound!r}, funcs=['elementpath/tdop.py:Parser.parse/advance', 'elementpath/xpath1/xpath1_parser.py'])
def lexeme_{name}(x: str) -> bool:
    """
    pre: len(x) <= 2
    post: _
    """
    p = {parser}()
    src = {head!r} + x + {tail!r}
    try:
        p.parse(src)
    except ElementPathError:
        pass
    for f in FIXED[:{nfixed}]:
        try:
            got = _tree(p.parse(f))
        except ElementPathError:
            if {parser}.__name__ == 'XPath1Parser':
                continue
            return False
        if got != _tree({parser}().parse(f)):
            return False
    return True
'''
define(_LEX.format(name='string_literal_31', budget=400, kind='main', parser='XPath31Parser', head="concat('", tail="', 'z')", nfixed=2,
                   bound="XPath 3.1: concat('<x>', 'z') for every string x of length <= 2, then parser reuse"), globals())
define(_LEX.format(name='string_literal_10', budget=400, kind='main', parser='XPath1Parser', head='concat("', tail='", "z")', nfixed=1,
                   bound='XPath 1.0: concat("<x>", "z") for every string x of length <= 2, then parser reuse'), globals())
define(_LEX.format(name='comment_body_31', budget=60, kind='hunt', parser='XPath31Parser', head="1 (: ", tail=" :) + 2", nfixed=1,
                   bound='XPath 3.1: 1 (: <x> :) + 2 for every comment body x of length <= 2 (not exhaustible: bug-hunting)'), globals())
define(_LEX.format(name='braced_uri_31', budget=60, kind='hunt', parser='XPath31Parser', head="Q{", tail="}a", nfixed=1,
                   bound='XPath 3.1: Q{<x>}a for every x of length <= 2 (not exhaustible: bug-hunting)'), globals())


# --- added after seeded-change review: whole-source strings of length <= 1 (including the empty source) and parser reuse ---------

_WHOLE = '''
@ob(budget={budget}, tbudget=900, kind={kind!r}, bound={bound!r}, funcs=['elementpath/tdop.py:Parser.parse', 'elementpath/tdop.py:Tokenizer'])
def whole_source_{name}(x: str) -> bool:
    """
    pre: len(x) <= {maxlen}{extra}
    post: _
    """
    p = {parser}()
    try:
        p.parse(x)
    except ElementPathError:
        pass
    for f in FIXED:
        try:
            got = _tree(p.parse(f))
        except ElementPathError:
            return False
        if got != _tree({parser}().parse(f)):
            return False
    return True
'''
define(_WHOLE.format(name='ascii1_31', budget=300, kind='main', parser='XPath31Parser', maxlen=1, extra=" and all(' ' <= c <= '~' for c in x)",
                     bound='XPath 3.1: EVERY source string of length <= 1 over printable ASCII (including the empty string): parse returns or raises ElementPathError, then the instance parses 3 fixed expressions like a fresh one'), globals())
define(_WHOLE.format(name='ascii1_10', budget=300, kind='main', parser='XPath1Parser', maxlen=1, extra=" and all(' ' <= c <= '~' for c in x)",
                     bound='XPath 1.0: EVERY source string of length <= 1 over printable ASCII (including the empty string), then parser reuse'), globals())
define(_WHOLE.format(name='len1_31', budget=90, kind='hunt', parser='XPath31Parser', maxlen=1, extra='',
                     bound='XPath 3.1: every source string of length <= 1 over all code points (not exhausted in 300 s: bug-hunting), then parser reuse'), globals())
define(_WHOLE.format(name='len2_31', budget=60, kind='hunt', parser='XPath31Parser', maxlen=2, extra='',
                     bound='XPath 3.1: every source string of length <= 2 (not exhaustible: bug-hunting), then parser reuse'), globals())


# --- added after round-2 seeded changes: a failed collation set-up raises only ElementPathError and cannot make the next call hang -----

from harness.locstub import _history   # noqa: E402  (stub locale module; installed locales are solver variables)

_COLL = '''
@ob(budget=90, family='collation-failure-history', bound={bound!r},
    funcs=['elementpath/collations.py:CollationManager.__enter__/__exit__', 'elementpath/collations.py:_locale_collate_lock'])
def collation_failure_history_{n}(de: bool, en_us: bool, it: bool, other: bool) -> bool:
    """
    post: _
    """
    return _history({k1!r}, {u1!r}, {k2!r}, {u2!r}, de, en_us, it, other)
'''
for _n, (_k1, _u1, _k2, _u2) in enumerate((
        ('compare', 'http://www.w3.org/2013/collation/UCA?lang=xx_XX', 'compare', 'C'),
        ('sort', 'http://www.w3.org/2013/collation/UCA?lang=de;fallback=yes', 'contains', 'http://www.w3.org/2013/collation/UCA'),
        ('distinct', 'http://www.w3.org/2013/collation/UCA?lang=xx_XX;fallback=no', 'max', 'http://www.w3.org/2013/collation/UCA?lang=xx_XX'),
        ('index-of', 'xx_XX.UTF-8', 'starts', 'http://www.w3.org/2013/collation/UCA?lang=it_IT.UTF-8'))):
    define(_COLL.format(n=_n, k1=_k1, u1=_u1, k2=_k2, u2=_u2,
                        bound='history [%s with %s; %s with %s] under every installed-locale configuration (16 cases chosen by the solver) on a stub '
                              'locale module: each call returns or raises ElementPathError, the collation lock is free afterwards (so the next '
                              'call cannot block) and the second call answers as it does alone' % (_k1, _u1, _k2, _u2)), globals())


# --- added after round-3 seeded changes: code points at the end of the code space; XPath 3.1 lookups evaluated without a focus check -------

from harness.common import P31 as _P31, P2 as _P2, XPathContext as _Ctx, L as _L  # noqa: E402
_T_CP = {'31': _P31.parse('codepoints-to-string(($a, $b))'), '2': _P2.parse('codepoints-to-string($a)'),
         's2c': _P31.parse('string-to-codepoints(codepoints-to-string($a))')}


@ob(budget=60, tbudget=400, kind='hunt', bound='(string model keeps forking: bug-hunting) a: every integer within 16 of the ends of the code space (negative, around 0x10FFFF / 0x110000) or of the surrogate block: '
                      'codepoints-to-string returns or raises ElementPathError (XPath 2.0 and 3.1)',
    funcs=['elementpath/xpath2/_xpath2_functions.py:codepoints-to-string', 'elementpath/helpers.py:is_xml_codepoint'])
def codepoints_to_string_any_integer(a: int) -> bool:
    """
    pre: -4 <= a <= 12 or 0x10FFF0 <= a <= 0x110010 or 0xD7F8 <= a <= 0xE008
    post: _
    """
    for key, v in (('31', {'a': a, 'b': 65}), ('2', {'a': a}), ('s2c', {'a': a})):
        try:
            _T_CP[key].evaluate(_Ctx(item=1, variables=v))
        except ElementPathError:
            pass
    return True


LOOKUP_SOURCES = ('?a', '?1', '?*', '(?a)', 'string(?a)', '?a + 1', 'if (?ok) then 1 else 2', '-?a', '?a = 1', 'count(?*)', '(?a, ?b)', '?a[1]', '?a?b',
                  'for $x in ?* return $x', '. ! ?a', '.[?a]', 'map{"a": 1}?a', '[1, 2]?*', '?a instance of xs:integer', 'not(?a)', '?(1 + 1)', '?("a")',
                  'some $x in ?* satisfies $x', 'let $m := ?a return $m', '?a => count()', '$m?a', '$m?*', '$m ! ?a')


@ob(budget=200, bound='28 XPath 3.1 sources built around unary / postfix lookups (index chosen by the solver) parsed on a fresh parser, then '
                      'evaluated without a context, with an integer item (value symbolic) and with a map / array item: every step returns '
                      'or raises ElementPathError',
    funcs=['elementpath/xpath31/_xpath31_operators.py:LookupOperatorToken', 'elementpath/xpath1/xpath1_parser.py:parse (static evaluation)'])
def lookup_sources_only_epe(i: int, x: int) -> bool:
    """
    pre: 0 <= i <= 27
    post: _
    """
    src = LOOKUP_SOURCES[[k for k in range(28) if k == i][0]]
    try:
        tok = _P31.__class__().parse(src)
    except ElementPathError:
        return True
    m = _P31.parse('map{"a": map{"b": 1}, "ok": true(), 1: 2}').evaluate(_Ctx(item=1))
    arr = _P31.parse('[1, [2, 3]]').evaluate(_Ctx(item=1))
    for ctx in (None, _Ctx(item=x, variables={'m': m}), _Ctx(item=m, variables={'m': arr}), _Ctx(item=arr, variables={'m': x})):
        try:
            tok.evaluate(ctx)
        except ElementPathError:
            pass
    return True


# --- added after defects reported during round 3: a table of sources around constructs whose failure paths were not exception-clean ------

import xml.etree.ElementTree as _CET  # noqa: E402  (concrete documents only)
_DOC = _CET.ElementTree(_CET.XML('<a xml:lang="zh-Hans-CN"><b xml:lang="en">1</b><c xml:lang="">x</c><d xml:lang="-"/></a>'))
EDGE_SOURCES = (
    ('31', '1 => ('), ('31', '1 => pfx:abs()'), ('31', '-1 => fn:1'), ('31', '1 => $f('), ('31', '(1, 2) => count() => ('), ('31', '1 => abs#1('),
    ('31', '9' * 4400), ('31', '1e' + '9' * 40), ('1', '1 < ' + '9' * 400), ('1', '9' * 400 + ' = 1'), ('2', '1 lt ' + '9' * 400),
    ('31', "substring('abc', 1e300)"), ('31', "substring('abc', -1e300, 1e300)"), ('31', 'subsequence((1, 2), 1e300)'), ('31', 'subsequence((1, 2), 1, 1e300)'),
    ('31', 'remove((1, 2), 100000000000000000000000000000000)'), ('31', "insert-before((1, 2), 99999999999999999999, 3)"), ('31', 'round(1e300, 2)'),
    ('31', 'round-half-to-even(1e300, -2)'), ('31', 'xs:integer(1e300) idiv 7'), ('31', "codepoints-to-string(xs:integer(1e10))"),
    ('1', "//b[lang('zh')]"), ('1', "//*[lang('zh-Hans')]"), ('1', "//*[lang('')]"), ('1', "//d[lang('-')]"), ('2', "//b[lang('zh')]"), ('31', "//*[lang('EN')]"),
    ('31', 'map{1:2} instance of map(xs:integer, xs:integer+)'), ('31', '[1] instance of array(xs:integer)+'), ('31', '[1] treat as array(xs:integer+)?'),
    ('31', 'function($x as xs:anyAtomicType) { $x }(/)'), ('31', 'function($x as xs:anyAtomicType*) { $x }(//b)'), ('31', 'function($x as xs:numeric) { $x }(//b)'),
    ('31', 'function($x as xs:untypedAtomic) as xs:anyAtomicType { $x }(//b)'), ('31', "let $a := / return name(.)"), ('31', 'abs#1 treat as function(*)'),
    ('31', 'map{xs:double("NaN"): 1}(xs:float("NaN"))'),
    ('1', '//1'), ('31', "//'x'"), ('31', 'count(//3)'), ('31', "//(1.5, 'a')"), ('31', '//map{}'), ('31', "() | map{'a': 1}"), ('31', "map{'a': 1} intersect a"),
    ('31', "() except map{'a': 1}"), ('2', "1.5 = xs:untypedAtomic('x')"), ('31', '1.5 < //b'), ('31', '//c != 1.5'), ('31', 'math:exp10(99999999999)'),
    ('31', 'math:exp(99999999999)'), ('31', 'math:exp10(1e308)'), ('31', 'math:pow(2, 1e308)'), ('31', 'math:pow(2e0, 0.5)'), ('31', '1 to 9223372036854775808'),
    ('2', 'head(1 to 9223372036854775808)'), ('31', "[exists(b), name()]"), ('31', '//. ! name()'),
    ('31', 'fold-left((), (), function($a, $b) { $a })'), ('31', 'array:fold-right([], (), function($a, $b) { $b })'), ('31', 'fold-left((1, 2), (0, 9), function($a, $b) { ($a, $b) })'),
    ('2', 'subsequence((1, 2, 3), ())'), ('31', 'subsequence((1, 2, 3), 1, ())'), ('31', "compare('a', 'b', xs:anyURI('http://www.w3.org/2005/xpath-functions/collation/codepoint'))"),
    ('31', "compare('a', 'b', 1)"), ('2', "ceiling(xs:untypedAtomic('1'))"), ('31', "floor(xs:untypedAtomic('x'))"), ('31', 'map:find(map{xs:double("NaN"): 1}, xs:double("NaN"))'),
    ('31', "doc('http://[')"), ('31', "doc-available('http://[')"), ('31', "format-integer(0, 'a', 'de')"), ('31', "format-integer(28, 'A', 'xx')"),
    ('1', 'xs:'), ('2', '/a/b:'), ('31', 'child::p:'), ('31', '1 + fn:'), ('1', '*:'), ('31', 'a:'), ('2', 'Q{u}'), ('31', '$p:'),
    ('2', '1.5 - //c'), ('31', "0.5 div xs:untypedAtomic('abc')"), ('31', "7.0 idiv xs:untypedAtomic(' ')"), ('31', '2.5 * //b'), ('2', '//c + 1.5'),
)
_PARSERS = {'1': XPath1Parser, '2': XPath2Parser, '31': XPath31Parser}


_EDGE = '''
@ob(budget=300, bound='{n} sources (index chosen by the solver) around failed arrow expressions, literals beyond the conversion limits, huge double '
                      'arguments, language tags, occurrence indicators on prefixed types, function conversion to xs:anyAtomicType, NaN and date '
                      'keys: parse returns or raises ElementPathError, the same parser instance then parses 3 fixed expressions like a fresh '
                      'one, and evaluation without context, with an integer item and with a document returns or raises ElementPathError',
    funcs=['elementpath/tdop.py:Parser.advance', 'elementpath/xpath31/_xpath31_operators.py:led__arrow_operator', 'elementpath/helpers.py:round_number',
           'elementpath/xpath1/_xpath1_functions.py:evaluate__lang', 'elementpath/xpath1/xpath1_parser.py:parse_occurrence',
           'elementpath/xpath_tokens/base.py:cast_to_primitive_type'])
def edge_sources_only_epe(i: int, x: int) -> bool:
    """
    pre: 0 <= i < {n}
    post: _
    """
    ver, src = EDGE_SOURCES[[k for k in range({n}) if k == i][0]]
    parser = _PARSERS[ver]()
    tok = None
    try:
        tok = parser.parse(src)
    except ElementPathError:
        pass
    for f in FIXED:
        try:
            got = _tree(parser.parse(f))
        except ElementPathError:
            return False
        if got != _tree(_PARSERS[ver]().parse(f)):
            return False
    if tok is not None:
        for ctx in (None, XPathContext(item=x), XPathContext(_DOC), XPathContext(_DOC, item=_DOC.getroot()[0])):
            try:
                tok.evaluate(ctx)
            except ElementPathError:
                pass
    return True
'''
define(_EDGE.format(n=len(EDGE_SOURCES)), globals())

COLLATION_STRINGS = ('http://[x', 'zz' + chr(0), '', ' ', '%', 'http://www.w3.org/2013/collation/UCA?lang=' + chr(0), 'a;b', '//', 'http://]', 'x:y', '?',
                     'http://www.w3.org/2013/collation/UCA?lang=;fallback=', 'http://www.w3.org/2013/collation/UCA?fallback=no;lang=' + chr(0))
_COLLS = '''
@ob(budget=120, family='collation-strings', bound='history [compare with the collation string {r} ; contains with en_US.UTF-8] under every installed-locale '
                      'configuration (16 cases chosen by the solver) on the stub locale module: ElementPathError or a result, lock free, second call as alone',
    funcs=['elementpath/collations.py:CollationManager.__init__/__enter__'])
def collation_string_{n}(de: bool, en_us: bool, it: bool, other: bool) -> bool:
    """
    post: _
    """
    return _history('compare', COLLATION_STRINGS[{n}], 'contains', 'en_US.UTF-8', de, en_us, it, other)
'''
for _n, _c in enumerate(COLLATION_STRINGS):
    define(_COLLS.format(n=_n, r=repr(_c).replace("'", '"')), globals())


# recorded finding: nesting deeper than the interpreter's recursion limit
@ob(budget=60, kind='witness', finding='C03-recursion-depth', bound="the sources '(' * 2000 + '1' + ')' * 2000 and '-' * 3000 + '1' (XPath 3.1)",
    funcs=['elementpath/tdop.py:Parser.expression'])
def known_recursion_depth(k: int) -> bool:
    """
    pre: k == 1
    post: _
    """
    for src in ('(' * 2000 + '1' + ')' * 2000, '-' * 3000 + '1'):
        try:
            XPath31Parser().parse(src)
        except ElementPathError:
            pass
    return True


# --- added in the last pass over the round-3 baseline report: 51 sources that raised OverflowError / ValueError / TypeError / AssertionError /
# InvalidOperation / AttributeError / IndexError / MemoryError before their repairs (second field: the exception each one raised) ------------
REPORTED_SOURCES = (
    ('//.!name()', 'AttributeError'),
    ('number({H})', 'OverflowError'),
    ('substring("abc", {H})', 'OverflowError'),
    ('floor({H})', 'OverflowError'),
    ('ceiling({H})', 'OverflowError'),
    ('sum(({H}, 1e0))', 'OverflowError'),
    ('avg(({H}, 1e0))', 'OverflowError'),
    ('avg({H})', 'InvalidOperation'),
    ('max(({H}, 1e0))', 'OverflowError'),
    ('subsequence((1,2,3), {H})', 'OverflowError'),
    ('xs:boolean({H})', 'OverflowError'),
    ('math:sqrt({H})', 'OverflowError'),
    ('math:sin({H})', 'OverflowError'),
    ('math:atan2(1e0, {H})', 'OverflowError'),
    ('format-number({H}, "#")', 'OverflowError'),
    ("format-integer({H}, 'I')", 'OverflowError'),
    ('1e308 idiv 1e-308', 'OverflowError'),
    ('1 idiv 1e-320', 'OverflowError'),
    ("true() idiv xs:float('-INF')", 'TypeError'),
    ("xs:double('INF') * xs:dayTimeDuration('PT0S')", 'InvalidOperation'),
    ("xs:dayTimeDuration('PT0S') div xs:dayTimeDuration('PT0S')", 'InvalidOperation'),
    ("substring('abc', xs:untypedAtomic('1'))", 'TypeError'),
    ("substring('abc', xs:untypedAtomic('x'))", 'ValueError'),
    ("codepoints-to-string(xs:untypedAtomic('x'))", 'ValueError'),
    ("years-from-duration(xs:untypedAtomic('1'))", 'TypeError'),
    ('years-from-duration(/a/@x)', 'TypeError'),
    ("index-of(xs:untypedAtomic('x'), 0)", 'ValueError'),
    ("index-of(xs:untypedAtomic('x'), 0.1)", 'ValueError'),
    ("index-of(xs:untypedAtomic('x'), true())", 'ValueError'),
    ("index-of(xs:untypedAtomic('1'), xs:dayTimeDuration('P1D'))", 'ValueError'),
    ("index-of(//b1, xs:gYear('2000'))", 'ValueError'),
    ('distinct-values((1, /a/b1))', 'ValueError'),
    ('distinct-values((1, 1, .))', 'ValueError'),
    ("math:atan2((), xs:double('NaN'))", 'TypeError'),
    ('math:atan2(/, 1.5)', 'TypeError'),
    ("format-integer(1.5, 'a')", 'TypeError'),
    ("format-integer(1e0, 'a')", 'TypeError'),
    ("format-integer(xs:double('NaN'), '1')", 'IndexError'),
    ("format-integer(xs:float('-INF'), '#.0')", 'IndexError'),
    ("function-name([1, 'a'])", 'ValueError'),
    ('function-name([])', 'ValueError'),
    ('map:merge(3)', 'AssertionError'),
    ('map:merge(//b1)', 'AssertionError'),
    ('map:merge(function($x){$x})', 'AssertionError'),
    ("deep-equal([1, 'a'], map{})", 'AssertionError'),
    ('deep-equal(//b1, [])', 'AssertionError'),
    ('1 => function()', 'AssertionError'),
    ('1 instance of p:*', 'ValueError'),
    ("unparsed-text('http://[')", 'ValueError'),
    ("json-doc('http://[')", 'ValueError'),
    ("format-dateTime(xs:dateTime('2000-01-01T12:30:45+05:00'), '[Y]', 'en', 'ISO', '')", 'ValueError'),
)



@ob(budget=300, bound='%d sources reported against the unmodified tree ({H} = a 401-digit integer literal; index chosen by the solver, source concrete on each path), '
                      'XPath 3.1, context item <a x="1"><b1>t</b1><b2>t2</b2><b3>t3</b3></a>: parse + evaluate return or raise an ElementPathError' % len(REPORTED_SOURCES),
    funcs=['elementpath/helpers.py:get_double', 'elementpath/xpath_tokens/base.py:XPathToken.validated_value', 'elementpath/xpath1/_xpath1_functions.py',
           'elementpath/xpath2/_xpath2_functions.py', 'elementpath/xpath30/_xpath30_functions.py', 'elementpath/xpath31/_xpath31_functions.py', 'elementpath/compare.py'])
def reported_sources_only_epe(i: int) -> bool:
    """
    pre: 0 <= i <= 50
    post: _
    """
    src = REPORTED_SOURCES[[k for k in range(51) if k == i][0]][0].replace('{H}', '1' + '0' * 400)
    root = _RET.XML('<a x="1"><b1>t</b1><b2>t2</b2><b3>t3</b3></a>')
    try:
        p = XPath31Parser(namespaces={'p': 'urn:p'}) if 'p:' in src else XPath31Parser()
        r = p.parse(src).evaluate(XPathContext(root, item=root))
    except ElementPathError:
        return True
    return r is not None


from harness.common import pyet as _pyet_c03  # noqa: E402
_RET = _pyet_c03()
