"""C11 — dates, times and durations on the proleptic Gregorian timeline (DESIGN §4 C11)."""
import datetime
import z3
from harness.common import ob, define, parse_all, ElementPathError, err_code, XPathContext, PLAIN, L
from harness.e2util import Queries, mval
from verif_lib import py2smt as PS
from elementpath import helpers
from elementpath.datatypes import DateTime, DateTime10, Date, Date10, Time, DayTimeDuration, YearMonthDuration, Timezone, \
    GregorianYear, GregorianYearMonth

H = 'elementpath/helpers.py'
D = 'elementpath/datatypes/datetime.py'
INFO = dict(
    level='other',
    explanation='Two engines on the real code. E2: helpers.days_from_common_era, months2days and adjust_day are translated from the '
                'current source (AST -> z3 Int terms, including calendar.isleap/leapdays translated the same way) and compared with an '
                'independent civil-calendar day-number reference for every year in the stated range (unsat = holds for all). '
                'E1: CrossHair executes DateTime/Date/duration constructors, todelta/fromdelta, + and -, comparison and yearMonth '
                'addition symbolically with year/month/day/time fields and duration lengths as solver variables.',
    assumptions=['timezones and adjust-to-timezone are bug-hunting only (no verdict within budget, DESIGN C11) and not part of the claim',
                 'years restricted to |year| <= 2 700 000 for timeline conversions (datetime.timedelta itself overflows beyond)',
                 'CrossHair substitutes a pure-Python datetime; float seconds in todelta are avoided by integer-only inputs',
                 'E2 reference: days-from-civil (proleptic Gregorian, astronomical year numbering) written in z3 integer arithmetic'])


# ---------------------------------------------------------------------------------------------------
# reference calendar (independent of elementpath): astronomical years, day 0 = 0001-01-01

def civil_days(y, m, d, floordiv=lambda a, b: a // b, mod=lambda a, b: a % b, ite=lambda c, a, b: a if c else b):
    y = ite(m <= 2, y - 1, y)
    era = floordiv(y, 400)
    yoe = y - era * 400
    mp = mod(m + 9, 12)
    doy = floordiv(153 * mp + 2, 5) + d - 1
    doe = yoe * 365 + floordiv(yoe, 4) - floordiv(yoe, 100) + doy
    return era * 146097 + doe - 306


def z_civil_days(y, m, d):
    # z3 `/` and `%` on Ints with positive constant divisors are floor division / non-negative remainder
    def fd(a, b):
        return a // b if isinstance(a, int) else a / b

    def ite(c, a, b):
        return (a if c else b) if isinstance(c, bool) else z3.If(c, a, b)
    return civil_days(y, m, d, floordiv=fd, mod=lambda a, b: a % b, ite=ite)


def _is_leap(y):
    return y % 4 == 0 and (y % 100 != 0 or y % 400 == 0)


def _z_is_leap(y):
    return z3.And(y % 4 == 0, z3.Or(y % 100 != 0, y % 400 == 0))


def _astro(year):
    """elementpath internal year numbering for XSD 1.0 (no year 0: -1 = 1 BCE) -> astronomical year"""
    return year if year > 0 else year + 1


def _validate(name, pyfn, val, vars_, grid):
    """Translator validation: real function vs z3 term on a concrete grid (must agree)."""
    for point in grid:
        subs = [(v, z3.IntVal(x)) for v, x in zip(vars_, point)]
        got = z3.simplify(z3.substitute(val, *subs))
        want = pyfn(*point)
        if not (z3.is_int_value(got) and got.as_long() == want):
            return '%s%r: encoding gives %s, real function %s' % (name, point, got, want)
    return None


YB = 2 ** 31


@ob(engine='z3', budget=120, bound='every year in [-2^31, 2^31]', funcs=[H + ':days_from_common_era', 'calendar.isleap'])
def e2_days_from_common_era(ctx):
    q = Queries(timeout_s=100)
    y = z3.Int('y')
    try:
        r = PS.translate(helpers.days_from_common_era, [y])
    except PS.Unsupported as e:
        return q.result(not_encodable=str(e))
    bad = _validate('days_from_common_era', helpers.days_from_common_era, r['val'], [y],
                    [(v,) for v in list(range(-820, 830, 7)) + [-YB, YB, -1, 0, 1, 4, 100, 400, 9999, 10000, -400, -401]])
    if bad:
        return q.result(not_encodable='translator validation failed: ' + bad)
    rng = [-YB <= y, y <= YB]
    val = r['val']
    res, m0 = q.check('reach', rng + [y < -5], expect='sat')
    q.sat = []
    q.samples.append('year=%s' % mval(m0, y))
    cex = []
    # CE years: days from 0001-01-01 to the end of year y = first day of year y+1
    res, m = q.check('CE: dfce(y) = civil(y+1,1,1)', rng + [y >= 0, val != z_civil_days(y + 1, 1, 1)])
    if res == 'sat':
        cex.append(dict(call='replay_dfce(%d)' % mval(m, y), message='days_from_common_era differs from the civil calendar'))
    # BCE (internal numbering -1 = 1 BCE = astronomical 0): counted down to the 1st of January of that year
    res, m = q.check('BCE: dfce(y) = civil(y+1,1,1)', rng + [y < 0, val != z_civil_days(y + 1, 1, 1)])
    if res == 'sat':
        cex.append(dict(call='replay_dfce(%d)' % mval(m, y), message='days_from_common_era differs from the civil calendar (BCE)'))
    res, _ = q.check('never raises', rng + [r['raised']])
    return q.result(cex, detail=dict(stubs=r['notes']))


def replay_dfce(y):
    return helpers.days_from_common_era(y) == civil_days(y + 1, 1, 1)


def _m2d_query(q, ybound, dbound, cex):
    y, m, md = z3.Ints('y m md')
    r = PS.translate(helpers.months2days, [y, m, md])
    bad = _validate('months2days', helpers.months2days, r['val'], [y, m, md],
                    [(yy, mm, dd) for yy in (-5, -1, 0, 1, 4, 1696, 1903, 2000) for mm in (1, 2, 3, 12)
                     for dd in (-25, -12, -1, 0, 1, 11, 12, 13, 50)])
    if bad:
        return 'translator validation failed: ' + bad, None
    rng = [-ybound <= y, y <= ybound, -dbound <= md, md <= dbound]
    tm = m - 1 + md
    ty = y + tm / 12
    tmon = tm % 12 + 1
    res, m0 = q.check('reach', rng + [md < -13, m == 2], expect='sat')
    q.sat = []
    q.samples.append('year=%s month=%s months_delta=%s' % (mval(m0, y), mval(m0, m), mval(m0, md)))
    # the start month and the direction are enumerated dimensions (24 queries, each a 3-seed z3 portfolio, all in parallel): with a
    # symbolic month z3's run time is heavy-tailed (2 s .. >300 s depending on the seed)
    items = []
    for mm in range(1, 13):
        for sign, cond in (('+', md > 0), ('-', md < 0)):
            items.append(('month=%d delta%s0: months2days = civil(target,1) - civil(start,1)' % (mm, '>' if sign == '+' else '<'),
                          rng + [m == mm, cond, r['val'] != z_civil_days(ty, tmon, 1) - z_civil_days(y, m, 1)], [y, m, md]))
    items.append(('delta=0', rng + [1 <= m, m <= 12, md == 0, r['val'] != 0], [y, m, md]))
    for name, (res, vals) in q.check_many(items, seeds=3).items():
        if res == 'sat':
            cex.append(dict(call='replay_m2d(%d, %d, %d)' % (vals['y'], vals['m'], vals['md']),
                            message='months2days differs from the civil calendar'))
    q.check('never raises / table index in range', rng + [1 <= m, m <= 12, z3.Or(r['raised'], *r['oob'])])
    return None, r


def replay_m2d(y, m, md):
    tm = m - 1 + md
    return helpers.months2days(y, m, md) == civil_days(y + tm // 12, tm % 12 + 1, 1) - civil_days(y, m, 1)


@ob(engine='z3', budget=300, tbudget=900, bound='year in [-2^31, 2^31] (astronomical numbering), month 1..12, months_delta in [-10^5, 10^5]',
    funcs=[H + ':months2days', 'calendar.isleap', 'calendar.leapdays'])
def e2_months2days(ctx):
    q = Queries(timeout_s=300, diff_binary=False)
    cex = []
    try:
        err, r = _m2d_query(q, YB, 10 ** 5, cex)
    except PS.Unsupported as e:
        return q.result(not_encodable=str(e))
    if err:
        return q.result(not_encodable=err)
    return q.result(cex, detail=dict(stubs=r['notes']))


@ob(engine='z3', budget=60, bound='every year in [-2^31, 2^31], month 1..12, day 1..31', funcs=[H + ':adjust_day', 'calendar.isleap'])
def e2_adjust_day(ctx):
    q = Queries(timeout_s=60)
    y, m, d = z3.Ints('y m d')
    try:
        r = PS.translate(helpers.adjust_day, [y, m, d])
    except PS.Unsupported as e:
        return q.result(not_encodable=str(e))
    bad = _validate('adjust_day', helpers.adjust_day, r['val'], [y, m, d],
                    [(yy, mm, dd) for yy in (-4, -1, 0, 1, 4, 1900, 2000, 2023) for mm in range(1, 13) for dd in (1, 28, 29, 30, 31)])
    if bad:
        return q.result(not_encodable='translator validation failed: ' + bad)
    rng = [-YB <= y, y <= YB, 1 <= m, m <= 12, 1 <= d, d <= 31]
    mlen = z3.If(m == 2, z3.If(_z_is_leap(y), 29, 28), z3.If(z3.Or(m == 4, m == 6, m == 9, m == 11), 30, 31))
    res, m0 = q.check('reach', rng + [d > 29, m == 2], expect='sat')
    q.sat = []
    q.samples.append('year=%s month=2 day=%s' % (mval(m0, y), mval(m0, d)))
    cex = []
    res, mo = q.check('adjust_day = min(day, month length)', rng + [r['val'] != z3.If(d <= mlen, d, mlen)])
    if res == 'sat':
        cex.append(dict(call='replay_adjust_day(%d, %d, %d)' % (mval(mo, y), mval(mo, m), mval(mo, d)), message='adjust_day wrong'))
    q.check('never raises', rng + [r['raised']])
    return q.result(cex, detail=dict(stubs=r['notes']))


def replay_adjust_day(y, m, d):
    ml = 29 if m == 2 and _is_leap(y) else 28 if m == 2 else 30 if m in (4, 6, 9, 11) else 31
    return helpers.adjust_day(y, m, d) == min(d, ml)


# ---------------------------------------------------------------------------------------------------
# E1: values through the real datatype classes

FAR = 2_700_000   # beyond this datetime.timedelta overflows (stated bound)


def _mlen(y_astro, m):
    return 29 if m == 2 and _is_leap(y_astro) else 28 if m == 2 else 30 if m in (4, 6, 9, 11) else 31


@ob(budget=60, tbudget=600, kind='hunt', bound='year in [10000, 2.7e6] or [-2.7e6, -1], month 1..12, day 1..28, hour 0..23, second 0..59',
    funcs=[D + ':AbstractDateTime.todelta', D + ':AbstractDateTime.__init__', H + ':days_from_common_era'])
def todelta_vs_civil(year: int, month: int, day: int, hour: int, second: int) -> bool:
    """
    pre: (10000 <= year <= 2700000) or (-2700000 <= year <= -1)
    pre: 1 <= month <= 12 and 1 <= day <= 28 and 0 <= hour <= 23 and 0 <= second <= 59
    post: _
    """
    td = DateTime(year, month, day, hour, 0, second).todelta()
    return td.days == civil_days(_astro(year), month, day) and td.seconds == hour * 3600 + second and td.microseconds == 0


@ob(budget=60, tbudget=600, kind='hunt', bound='delta days in [-9.8e8, 9.8e8] outside datetime range, seconds 0..86399',
    funcs=[D + ':AbstractDateTime.fromdelta'])
def fromdelta_vs_civil(days: int, secs: int) -> bool:
    """
    pre: -980000000 <= days <= 980000000 and 0 <= secs < 86400
    pre: days < -366 or days > 3652058
    post: _
    """
    d = DateTime.fromdelta(datetime.timedelta(days=days, seconds=secs))
    return civil_days(_astro(d.year), d.month, d.day) == days and d.hour * 3600 + d.minute * 60 + d.second == secs


@ob(budget=300, bound='delta days in [-366, 3652058] (datetime range and 1 BCE), seconds 0..86399', funcs=[D + ':AbstractDateTime.fromdelta'])
def fromdelta_vs_civil_near(days: int, secs: int) -> bool:
    """
    pre: -366 <= days <= 3652058 and 0 <= secs < 86400
    post: _
    """
    d = DateTime.fromdelta(datetime.timedelta(days=days, seconds=secs))
    return civil_days(_astro(d.year), d.month, d.day) == days and d.hour * 3600 + d.minute * 60 + d.second == secs


@ob(budget=60, tbudget=600, kind='hunt', bound='year in [1, 9999], month, day 1..28; dayTimeDuration seconds in [-10^9, 10^9]',
    funcs=[D + ':AbstractDateTime._operation', D + ':DayTimeDuration.get_timedelta'])
def add_sub_daytime(year: int, month: int, day: int, secs: int) -> bool:
    """
    pre: 1 <= year <= 9999 and 1 <= month <= 12 and 1 <= day <= 28
    pre: -10**9 <= secs <= 10**9
    post: _
    """
    # integer timedelta operand: DayTimeDuration.get_timedelta() goes through float seconds, which CrossHair's datetime model
    # turns into a spurious TypeError (DESIGN §2 item 5); the duration-object path is the bug-hunting twin below
    d = DateTime(year, month, day)
    td = datetime.timedelta(seconds=secs)
    return (d + td) - td == d


@ob(budget=30, tbudget=300, kind='hunt', bound='as add_sub_daytime, through DayTimeDuration objects (float seconds: bug-hunting)',
    funcs=[D + ':AbstractDateTime._operation', D + ':DayTimeDuration.get_timedelta'])
def add_sub_daytime_duration(year: int, month: int, day: int, secs: int) -> bool:
    """
    pre: 1 <= year <= 9999 and 1 <= month <= 12 and 1 <= day <= 28
    pre: -10**9 <= secs <= 10**9
    post: _
    """
    d = DateTime(year, month, day)
    dur = DayTimeDuration(seconds=secs)
    return (d + dur) - dur == d


@ob(budget=60, tbudget=600, kind='hunt', bound='two dates, years in [-5000, 20000] \\ {0}, month, day 1..28', funcs=[D + ':AbstractDateTime._compare'])
def order_is_instant_order(y1: int, m1: int, d1: int, y2: int, m2: int, d2: int) -> bool:
    """
    pre: (-5000 <= y1 <= 20000) and y1 != 0 and (-5000 <= y2 <= 20000) and y2 != 0
    pre: 1 <= m1 <= 12 and 1 <= d1 <= 28 and 1 <= m2 <= 12 and 1 <= d2 <= 28
    post: _
    """
    a = DateTime(y1, m1, d1)
    b = DateTime(y2, m2, d2)
    ka = civil_days(_astro(y1), m1, d1)
    kb = civil_days(_astro(y2), m2, d2)
    return (a < b) == (ka < kb) and (a == b) == (ka == kb) and (a >= b) == (ka >= kb)


@ob(budget=30, tbudget=300, kind='hunt', bound='two dateTimes, years in [-5000, 20000] \\ {0}; difference = elapsed seconds (fromtimedelta formats floats: bug-hunting)',
    funcs=[D + ':AbstractDateTime._operation', D + ':DayTimeDuration.fromtimedelta'])
def difference_is_elapsed(y1: int, m1: int, d1: int, y2: int, m2: int, d2: int, h1: int) -> bool:
    """
    pre: (-5000 <= y1 <= 20000) and y1 != 0 and (-5000 <= y2 <= 20000) and y2 != 0
    pre: 1 <= m1 <= 12 and 1 <= d1 <= 28 and 1 <= m2 <= 12 and 1 <= d2 <= 28 and 0 <= h1 <= 23
    post: _
    """
    a = DateTime(y1, m1, d1, h1)
    b = DateTime(y2, m2, d2)
    want = (civil_days(_astro(y1), m1, d1) - civil_days(_astro(y2), m2, d2)) * 86400 + h1 * 3600
    return (a - b).seconds == want and b + (a - b) == a


@ob(budget=150, bound='year in [1, 9000], valid day of month, months in [-1200, 1200], target year >= 1',
    funcs=[D + ':AbstractDateTime._operation (YearMonthDuration)', H + ':adjust_day'])
def yearmonth_add_clamps(year: int, month: int, day: int, months: int) -> bool:
    """
    pre: 1 <= year <= 9000 and 1 <= month <= 12 and 1 <= day <= 31 and -1200 <= months <= 1200
    pre: day <= (29 if month == 2 and (year % 4 == 0 and (year % 100 != 0 or year % 400 == 0)) else 28 if month == 2 else 30 if month in (4, 6, 9, 11) else 31)
    pre: year + (month - 1 + months) // 12 >= 1
    post: _
    """
    r = Date(year, month, day) + YearMonthDuration(months=months)
    tm = (month - 1 + months) % 12 + 1
    ty = year + (month - 1 + months) // 12
    return (r.year, r.month, r.day) == (ty, tm, min(day, _mlen(ty, tm)))


@ob(budget=120, bound='year in [-2.7e6, 2.7e6] \\ {0}, all fields; accessors return the constructor components',
    funcs=[D + ':AbstractDateTime.__init__', D + ':year/month/day/hour/minute/second'])
def components(year: int, month: int, day: int, hour: int, minute: int, second: int) -> bool:
    """
    pre: -2700000 <= year <= 2700000 and year != 0 and 1 <= month <= 12 and 1 <= day <= 28
    pre: 0 <= hour <= 23 and 0 <= minute <= 59 and 0 <= second <= 59
    post: _
    """
    d = DateTime(year, month, day, hour, minute, second)
    return (d.year, d.month, d.day, d.hour, d.minute, d.second) == (year, month, day, hour, minute, second)


@ob(budget=120, bound='year in [1, 9998] or [10000, 2.7e6] or BCE, 24:00:00 = next day 00:00:00',
    funcs=[D + ':AbstractDateTime.__init__'])
def hour24_normalisation(year: int, month: int, day: int) -> bool:
    """
    pre: -2700000 <= year <= 2700000 and year != 0 and 1 <= month <= 12 and 1 <= day <= 27
    post: _
    """
    return DateTime(year, month, day, 24, 0, 0) == DateTime(year, month, day + 1, 0, 0, 0)


@ob(budget=60, tbudget=600, kind='hunt', bound='year in [10000, 2.7e6], month 1..12, day 1..28 (time part zero)', funcs=[D + ':AbstractDateTime.todelta'])
def todelta_days_far_ce(year: int, month: int, day: int) -> bool:
    """
    pre: 10000 <= year <= 2700000 and 1 <= month <= 12 and 1 <= day <= 28
    post: _
    """
    return DateTime(year, month, day).todelta().days == civil_days(year, month, day)


@ob(budget=60, tbudget=600, kind='hunt', bound='year in [-2.7e6, -1], month 1..12, day 1..28 (time part zero)', funcs=[D + ':AbstractDateTime.todelta'])
def todelta_days_bce(year: int, month: int, day: int) -> bool:
    """
    pre: -2700000 <= year <= -1 and 1 <= month <= 12 and 1 <= day <= 28
    post: _
    """
    return DateTime(year, month, day).todelta().days == civil_days(year + 1, month, day)


@ob(budget=60, tbudget=600, kind='hunt', bound='BCE instants: delta days in [-9.8e8, -367], seconds 0..86399', funcs=[D + ':AbstractDateTime.fromdelta'])
def fromdelta_vs_civil_bce(days: int, secs: int) -> bool:
    """
    pre: -980000000 <= days < -366 and 0 <= secs < 86400
    post: _
    """
    d = DateTime.fromdelta(datetime.timedelta(days=days, seconds=secs))
    return civil_days(_astro(d.year), d.month, d.day) == days and d.hour * 3600 + d.minute * 60 + d.second == secs


# --- E2: dayTimeDuration <-> timedelta conversions for every multiple of a microsecond --------------------------------------

from decimal import Decimal  # noqa: E402


class _TD:
    """contract of datetime.timedelta(seconds=s, microseconds=u) for integer arguments: total microseconds"""
    def __init__(self, total_us):
        self.total_us = total_us


def _td_stub(fn, days=0, seconds=0, microseconds=0):
    d, s, u = PS.unwrap(days), PS.unwrap(seconds), PS.unwrap(microseconds)
    for v in (d, s, u):
        if z3.is_expr(v) and v.sort() != z3.IntSort():
            raise PS.Unsupported('timedelta() with a non-integer argument')
    return _TD(d * 86400 * 10 ** 6 + s * 10 ** 6 + u)


@ob(engine='z3', budget=60, bound='every dayTimeDuration value n/10^6 seconds, n any integer', funcs=[D + ':DayTimeDuration.get_timedelta'])
def e2_get_timedelta(ctx):
    q = Queries(timeout_s=30, diff_binary=False)
    n = z3.Int('n')
    secs = z3.ToReal(n) / 1000000
    me = PS.Obj('self', dict(seconds=PS.Sym(secs, Decimal)))
    try:
        r = PS.translate(DayTimeDuration.get_timedelta, [me], stubs={'datetime.timedelta': _td_stub})
    except PS.Unsupported as e:
        return q.result(not_encodable=str(e))
    outs = [(c, v) for c, v in r['rets'] if isinstance(v, _TD)]
    if len(outs) != 1:
        return q.result(not_encodable='unexpected return shape')
    total = outs[0][1].total_us
    base = list(r['fn'].side)
    res, m0 = q.check('reach', base + [n < -1000000, n % 1000000 != 0], expect='sat')
    q.sat = []
    q.samples.append('seconds=%s/10^6' % mval(m0, n))
    cex = []
    res, m = q.check('timedelta microseconds = n', base + [total != n])
    if res == 'sat':
        cex.append(dict(call='replay_get_timedelta(%d)' % mval(m, n), message='get_timedelta wrong for %s microseconds' % mval(m, n)))
    return q.result(cex, detail=dict(stubs=sorted(set(r['notes']))))


def replay_get_timedelta(n):
    d = DayTimeDuration(seconds=Decimal(n) / 1000000)
    return d.get_timedelta() == datetime.timedelta(microseconds=n)


@ob(engine='z3', budget=60, bound='every timedelta (days, seconds in [0,86399], microseconds in [0,999999]) -> dayTimeDuration seconds',
    funcs=[D + ':DayTimeDuration.fromtimedelta'])
def e2_fromtimedelta(ctx):
    q = Queries(timeout_s=30, diff_binary=False)
    days, secs, us = z3.Ints('days secs us')
    td = PS.Obj('td', dict(days=days, seconds=secs, microseconds=us))
    captured = {}

    def ctor(fn, seconds=None):
        captured['seconds'] = PS.unwrap(seconds)
        return PS.Obj('duration')
    try:
        r = PS.translate(DayTimeDuration.fromtimedelta.__func__, [PS.Obj('cls'), td], stubs={'cls': ctor})
    except PS.Unsupported as e:
        return q.result(not_encodable=str(e))
    if 'seconds' not in captured:
        return q.result(not_encodable='constructor call not found')
    got = captured['seconds']
    got = z3.ToReal(got) if z3.is_expr(got) and got.sort() == z3.IntSort() else got
    rng = [0 <= secs, secs < 86400, 0 <= us, us < 1000000]
    want = z3.ToReal(days * 86400 + secs) + z3.ToReal(us) / 1000000
    res, m0 = q.check('reach', rng + [days < 0, us > 0], expect='sat')
    q.sat = []
    q.samples.append('days=%s seconds=%s microseconds=%s' % (mval(m0, days), mval(m0, secs), mval(m0, us)))
    cex = []
    res, m = q.check('seconds = days*86400 + seconds + microseconds/10^6', rng + [got != want])
    if res == 'sat':
        cex.append(dict(call='replay_fromtimedelta(%d, %d, %d)' % (mval(m, days), mval(m, secs), mval(m, us)), message='fromtimedelta wrong'))
    return q.result(cex, detail=dict(stubs=sorted(set(r['notes']))))


def replay_fromtimedelta(days, secs, us):
    td = datetime.timedelta(days=days, seconds=secs, microseconds=us)
    return DayTimeDuration.fromtimedelta(td).seconds == Decimal(days * 86400 + secs) + Decimal(us) / 1000000


# --- timezones: lexical form <-> offset ---------------------------------------------------------------------------------------

HH = tuple('%02d' % h for h in range(15))
MM = tuple('%02d' % m for m in range(60))


def _tz_roundtrip(neg, h, m):
    text = ('-' if neg else '+') + HH[h] + ':' + MM[m]
    tz = Timezone.fromstring(text)
    minutes = (h * 60 + m) * (-1 if neg else 1)
    if tz.offset != datetime.timedelta(minutes=minutes):
        return False
    # canonical form is a fixed point that re-parses to an equal value
    s = str(tz)
    return Timezone.fromstring(s) == tz and (s == text or minutes == 0 and s == 'Z')


_TZ = '''
@ob(budget=200, bound='every timezone designator {sign}hh:mm with hh in {lo:02d}..{hi:02d}, mm in 00..59 (digits chosen by the solver from tables)',
    funcs=[D + ':Timezone.fromstring', D + ':Timezone.tzname'])
def timezone_lexical_roundtrip_{name}(h: int, m: int) -> bool:
    """
    pre: {lo} <= h <= {hi} and 0 <= m <= 59 and (h < 14 or m == 0)
    post: _
    """
    return _tz_roundtrip({neg}, h, m)
'''
for _neg in (False, True):
    for _lo, _hi in ((0, 3), (4, 8), (9, 14)):
        define(_TZ.format(sign='-' if _neg else '+', lo=_lo, hi=_hi, neg=_neg, name=('minus' if _neg else 'plus') + '_%02d' % _lo), globals())


T_TZ = parse_all({'tz': 'timezone-from-time(xs:time($s))', 'eq': 'xs:time($s) eq xs:time($t)'})


@ob(budget=120, tbudget=600, kind='hunt', bound='xs:time with a symbolic timezone minute offset in [-840, 840]: timezone-from-time returns the offset; equal instants compare eq (datetime model: bug-hunting)',
    funcs=[D + ':Timezone', 'elementpath/xpath2/_xpath2_functions.py:timezone-from-time'])
def timezone_through_xpath(neg: bool, h: int, m: int) -> bool:
    """
    pre: 0 <= h <= 13 and 0 <= m <= 59
    post: _
    """
    text = ('-' if neg else '+') + HH[h] + ':' + MM[m]
    r = T_TZ['tz'].evaluate(XPathContext(item=1, variables={'s': '12:00:00' + text}))
    r = r[0] if isinstance(r, list) else r
    return r.seconds == (h * 60 + m) * 60 * (-1 if neg else 1)


# --- E2: AbstractDateTime.todelta() for years outside 1..9999, with a contract model of datetime -------------------------------

class DTv:
    """contract model of a naive datetime.datetime: fields as z3 Int terms (or ints)"""
    def __init__(self, year, month, day, hour=0, minute=0, second=0, microsecond=0):
        self.f = dict(year=year, month=month, day=day, hour=hour, minute=minute, second=second, microsecond=microsecond, tzinfo=None)

    def sym_attr(self, fn, name):
        if name in self.f:
            return self.f[name]
        raise PS.Unsupported('datetime attribute ' + name)

    def us_of_day(self):
        f = self.f
        return ((f['hour'] * 60 + f['minute']) * 60 + f['second']) * 10 ** 6 + f['microsecond']

    def sym_binop(self, fn, op, other, reflected):
        import ast as _ast
        if isinstance(other, datetime.datetime) and other.tzinfo is None:
            other = DTv(other.year, other.month, other.day, other.hour, other.minute, other.second, other.microsecond)
        if isinstance(op, _ast.Sub) and isinstance(other, DTv) and not reflected:
            # contract of datetime subtraction: difference of proleptic ordinals and of the times of day
            d = z_civil_days(self.f['year'], self.f['month'], self.f['day']) - z_civil_days(other.f['year'], other.f['month'], other.f['day'])
            return TDv(d * 86400 * 10 ** 6 + self.us_of_day() - other.us_of_day())
        raise PS.Unsupported('datetime operator')


class TDv:
    """contract model of datetime.timedelta: total microseconds (Int term)"""
    def __init__(self, total_us):
        self.total_us = total_us

    def sym_attr(self, fn, name):
        t = self.total_us
        day_us = 86400 * 10 ** 6
        if name == 'days':
            return t / day_us                      # floor (normalised timedelta)
        if name == 'seconds':
            return (t % day_us) / 10 ** 6
        if name == 'microseconds':
            return t % 10 ** 6
        if name == 'total_seconds':
            return PS.SymCallable(lambda fn_: PS.Sym(z3.ToReal(t) / 10 ** 6, float))
        raise PS.Unsupported('timedelta attribute ' + name)


def _dt_ctor(fn, year, month=None, day=None, hour=0, minute=0, second=0, microsecond=0, tzinfo=None):
    if tzinfo is not None:
        raise PS.Unsupported('aware datetime')
    return DTv(PS.unwrap(year), PS.unwrap(month), PS.unwrap(day), hour, minute, second, microsecond)


def _td_ctor_real(fn, days=0, seconds=0, microseconds=0):
    """datetime.timedelta(days=int, seconds=float): contract = exact sum, rounded to microseconds (the float here is k/10^6)"""
    d, s_, u = PS.unwrap(days), PS.unwrap(seconds), PS.unwrap(microseconds)
    total = z3.ToReal(d) * 86400 * 10 ** 6 if z3.is_expr(d) and d.sort() == z3.IntSort() else d * 86400 * 10 ** 6
    s_real = z3.ToReal(s_) if z3.is_expr(s_) and s_.sort() == z3.IntSort() else s_
    total = total + s_real * 10 ** 6 + (z3.ToReal(u) if z3.is_expr(u) and u.sort() == z3.IntSort() else u)
    return TDreal(total)


class TDreal:
    def __init__(self, total_us_real):
        self.total_us_real = total_us_real


def _todelta_obligation(era):
    q = Queries(timeout_s=120, diff_binary=False)
    y, mo, d, h, mi, s_, us = z3.Ints('y mo d h mi s us')
    # the proxy year of the internal datetime is 4 (leap) or 6 (common): it only has to be consistent with month/day
    proxy = z3.Int('proxy')
    dt = DTv(proxy, mo, d, h, mi, s_, us)
    me = PS.Obj('self', dict(_year=y, year=y, _dt=dt))
    stubs = {'datetime.datetime': _dt_ctor, 'datetime.timedelta': _td_ctor_real}
    try:
        r = PS.translate(DateTime.todelta, [me], stubs=stubs, raw_outcomes=True)
    except PS.Unsupported as e:
        return q.result(not_encodable=str(e))
    outs = [(c, v) for c, v in r['rets'] if isinstance(v, TDreal)]
    if not outs:
        return q.result(not_encodable='no timedelta returned on the far-year path (%d outcomes)' % len(r['rets']))
    total = None
    for c, v in reversed(outs):
        total = v.total_us_real if total is None else z3.If(c, v.total_us_real, total)
    rng = [1 <= mo, mo <= 12, 1 <= d, d <= 28, 0 <= h, h <= 23, 0 <= mi, mi <= 59, 0 <= s_, s_ <= 59, 0 <= us, us < 10 ** 6,
           z3.Or(proxy == 4, proxy == 6)]
    if era == 'far':
        rng += [y >= 10000, y <= YB]
        astro = y
    else:
        rng += [y <= -1, y >= -YB]
        astro = y + 1
    want = z3.ToReal(z_civil_days(astro, mo, d) * 86400 * 10 ** 6 + ((h * 60 + mi) * 60 + s_) * 10 ** 6 + us)
    base = list(r['fn'].side) + rng
    res, m0 = q.check('reach', base + [us > 0, d > 1], expect='sat')
    q.sat = []
    if m0 is not None:
        q.samples.append('year=%s month=%s day=%s %s:%s:%s.%s' % tuple(mval(m0, v) for v in (y, mo, d, h, mi, s_, us)))
    cex = []
    items = []
    for mm in range(1, 13):
        items.append(('month=%d: todelta = civil day number and time of day' % mm, base + [mo == mm, total != want], [y, mo, d, h, mi, s_, us]))
    for name, (res, vals) in q.check_many(items, seeds=2).items():
        if res == 'sat':
            cex.append(dict(call='replay_todelta(%d, %d, %d, %d, %d, %d, %d)' % tuple(vals[k] for k in ('y', 'mo', 'd', 'h', 'mi', 's', 'us')),
                            message='todelta differs from the civil calendar'))
    q.check('never raises / table index in range', base + [z3.Or(r['raised'], *r['oob'])])
    return q.result(cex[:6], detail=dict(stubs=sorted(set(r['notes']))))


def replay_todelta(y, mo, d, h, mi, s, us):
    if abs(y) > FAR:
        return True      # timedelta itself overflows: outside the replayable range
    td = DateTime(y, mo, d, h, mi, s, us).todelta()
    want = datetime.timedelta(days=civil_days(_astro(y), mo, d), seconds=(h * 60 + mi) * 60 + s, microseconds=us)
    return td == want


@ob(engine='z3', budget=300, bound='every xs:dateTime with year in [10000, 2^31], month, day 1..28, any time of day incl. microseconds (contract model of datetime)',
    funcs=[D + ':AbstractDateTime.todelta', H + ':days_from_common_era', 'calendar.isleap'])
def e2_todelta_far_years(ctx):
    return _todelta_obligation('far')


@ob(engine='z3', budget=300, bound='every xs:dateTime with year in [-2^31, -1] (XSD 1.1 numbering), month, day 1..28, any time of day incl. microseconds',
    funcs=[D + ':AbstractDateTime.todelta', H + ':days_from_common_era', 'calendar.isleap'])
def e2_todelta_bce(ctx):
    return _todelta_obligation('bce')


# --- added after round-2 seeded changes: the 29th of February exists exactly in leap years, also beyond year 9999 and BCE ------------

@ob(budget=120, bound='year in [10000, 2.7e6] or [-2.7e6, -1] (internal numbering, -1 = 1 BCE; XSD 1.1 and XSD 1.0 classes): DateTime/Date(year, 2, 29) is accepted iff the proleptic Gregorian year is leap; day 30 never',
    funcs=[D + ':AbstractDateTime.__init__'])
def leap_day_far_years(year: int) -> bool:
    """
    pre: (10000 <= year <= 2700000) or (-2700000 <= year <= -1)
    post: _
    """
    leap = _is_leap(_astro(year))
    for cls in (DateTime, Date, DateTime10, Date10):      # the internal year numbering (no year 0) is the same for both XSD versions
        try:
            v = cls(year, 2, 29)
            ok = v.day == 29 and v.month == 2 and v.year == year
        except ValueError:
            ok = None
        if (ok is True) != leap or ok is False:
            return False
        try:
            cls(year, 2, 30)
            return False
        except ValueError:
            pass
    return True


# --- added after round-2 seeded changes: adjust-*-to-timezone (bug-hunting: CrossHair's datetime model does not exhaust) -----------

TZ_OFFS = (-840, -300, -60, 0, 60, 330, 840)
T_ADJ = parse_all({'date': 'adjust-date-to-timezone($d, $z)', 'dt': 'adjust-dateTime-to-timezone($t, $z)', 'dt_eq': 'adjust-dateTime-to-timezone($t, $z) eq $t',
                   'time_eq': 'adjust-time-to-timezone($u, $z) eq $u', 'tz_of': 'timezone-from-dateTime(adjust-dateTime-to-timezone($t, $z))'})


@ob(budget=60, tbudget=600, kind='hunt', bound='date/dateTime/time with a timezone from 7 offsets, target timezone from the same 7 (both chosen by the solver): adjusting preserves the instant, sets the target timezone, and is the identity when the offsets are equal',
    funcs=['elementpath/xpath_tokens/base.py:adjust_datetime', 'elementpath/xpath2/_xpath2_functions.py:adjust-*-to-timezone'])
def adjust_to_timezone_preserves_instant(oi: int, zi: int, hour: int) -> bool:
    """
    pre: 0 <= oi <= 6 and 0 <= zi <= 6 and 0 <= hour <= 23
    post: _
    """
    tz = Timezone(datetime.timedelta(minutes=TZ_OFFS[oi]))
    z = DayTimeDuration(seconds=TZ_OFFS[zi] * 60)
    d = Date(2002, 3, 7, tzinfo=tz)
    t = DateTime(2002, 3, 7, hour, 30, 0, tzinfo=tz)
    u = Time(hour, 30, 0, tzinfo=tz)
    v = dict(d=d, t=t, u=u, z=z)
    # (xs:time values are compared on a reference date, so an adjustment that crosses midnight is not 'eq': only dateTime is asserted)
    if ev_(T_ADJ['dt_eq'], v) != [True]:
        return False
    if ev_(T_ADJ['tz_of'], v)[0].seconds != TZ_OFFS[zi] * 60:
        return False
    if oi == zi:
        return str(ev_(T_ADJ['date'], v)[0]) == str(d) and str(ev_(T_ADJ['dt'], v)[0]) == str(t)
    return True


def ev_(tok, variables):
    r = tok.evaluate(XPathContext(item=1, variables=variables))
    return r if isinstance(r, list) else [r]


@ob(budget=60, tbudget=300, kind='hunt', bound='xs:date with a timezone from 7 offsets adjusted to the SAME timezone (explicit argument or implicit timezone of the context): identity (datetime model: bug-hunting)',
    funcs=['elementpath/xpath_tokens/base.py:adjust_datetime (xs:date branch)'])
def adjust_date_same_timezone(oi: int, implicit: bool) -> bool:
    """
    pre: 0 <= oi <= 6
    post: _
    """
    tz = Timezone(datetime.timedelta(minutes=TZ_OFFS[oi]))
    d = Date(2002, 3, 7, tzinfo=tz)
    if implicit:
        r = T_ADJ1.evaluate(XPathContext(item=1, variables=dict(d=d), timezone=tz))
    else:
        r = T_ADJ['date'].evaluate(XPathContext(item=1, variables=dict(d=d, z=DayTimeDuration(seconds=TZ_OFFS[oi] * 60))))
    r = r[0] if isinstance(r, list) else r
    return str(r) == str(d)


T_ADJ1 = parse_all({'x': 'adjust-date-to-timezone($d)'})['x']


# --- added after round-3 seeded changes: differences across the limits of Python's datetime range (year 9999/10000 and 1 BCE / 1 CE) --------

_EDGE_YEARS = (9998, 9999, 10000, 10001, 1, 2, -1, -2)


@ob(budget=300, bound='two xs:dateTime values with years from {9998, 9999, 10000, 10001, 1, 2, -1, -2} (XSD 1.1 numbering: -1 is 2 BCE), month in '
                      '{1, 12}, day of the first in {1, 28} (all chosen by the solver, values concrete on each path; second day 28, first hour 23): a - b is '
                      'the elapsed time on the proleptic Gregorian timeline',
    funcs=[D + ':AbstractDateTime._operation', D + ':AbstractDateTime.todelta', D + ':DayTimeDuration.fromtimedelta'])
def difference_across_datetime_limits(i1: int, i2: int, ma: bool, da: bool, mb: bool) -> bool:
    """
    pre: 0 <= i1 <= 7 and 0 <= i2 <= 7
    post: _
    """
    y1 = _EDGE_YEARS[[k for k in range(8) if k == i1][0]]
    y2 = _EDGE_YEARS[[k for k in range(8) if k == i2][0]]
    m1, d1, m2, d2, h1 = (12 if ma else 1), (28 if da else 1), (12 if mb else 1), 28, 23
    a = DateTime(y1, m1, d1, h1)
    b = DateTime(y2, m2, d2)
    want = (civil_days(_astro(y1), m1, d1) - civil_days(_astro(y2), m2, d2)) * 86400 + h1 * 3600
    return (a - b).seconds == want      # adding the difference back goes through CrossHair's datetime model of fromdelta (see fromdelta_vs_civil)


# --- added after round-4 seeded changes: the implicit timezone is applied to COPIES of the caller's values (both operand positions) ----------

T_TZ.update(parse_all({'sub': '$z - $d', 'sub_r': '$d - $z', 'both': '($d - $z, $z - $d, $d - $d)', 'tzd': 'timezone-from-dateTime($d)', 'strd': 'string($d)'}))


@ob(budget=120, bound='a timezone-less xs:dateTime held in a variable, used as left and as right operand of a subtraction with a value in UTC, context '
                                   'timezone from 3 offsets (chosen by the solver): the difference uses the implicit timezone every time, and afterwards the '
                                   'caller\'s value still has no timezone',
    funcs=['elementpath/xpath_tokens/base.py:XPathToken.get_operands', D + ':AbstractDateTime._operation'])
def implicit_timezone_on_copies(oi: int, right_first: bool) -> bool:
    """
    pre: 0 <= oi <= 2
    post: _
    """
    off = (300, -210, 0)[[k for k in range(3) if k == oi][0]]
    d = DateTime(2000, 1, 1, 12, 0, 0)
    z = DateTime(2000, 1, 1, 12, 0, 0, tzinfo=Timezone(datetime.timedelta(minutes=0)))
    tz = Timezone(datetime.timedelta(minutes=off))
    v = {'d': d, 'z': z}
    order = ('sub', 'sub_r') if right_first else ('sub_r', 'sub')
    for _ in range(2):
        for key in order:
            r = L(T_TZ[key].evaluate(XPathContext(item=1, variables=v, timezone=tz)))
            want = off * 60 if key == 'sub' else -off * 60
            if len(r) != 1 or r[0].seconds != want:
                return False
        if d.tzinfo is not None or L(T_TZ['tzd'].evaluate(XPathContext(item=1, variables=v))) != [] or str(d) != '2000-01-01T12:00:00':
            return False
    return True


T_TZ.update(parse_all({'one_sided': '(xs:dateTime($a) - xs:dateTime($b), xs:dateTime($b) - xs:dateTime($a), xs:dateTime($b) + (xs:dateTime($a) - xs:dateTime($b)) eq xs:dateTime($a), '
                                    'xs:dateTime($a) lt xs:dateTime($b), xs:dateTime($a) gt xs:dateTime($b))'}))
OS_OFFS = ('+05:00', '-03:30', 'Z', '+14:00', '-00:30')
_OS_MIN = {'+05:00': 300, '-03:30': -210, 'Z': 0, '+14:00': 840, '-00:30': -30}


@ob(budget=200, bound='a = 2000-01-01T12:00:00 with a timezone from a table of 5, b = the same local time or one hour later WITHOUT timezone (chosen by the '
                      'solver), no implicit timezone in the context: the timezone-less value is taken as UTC by subtraction exactly as by lt/gt, '
                      'a - b = -(b - a), and b + (a - b) eq a',
    funcs=[D + ':get_comparable_datetimes', D + ':AbstractDateTime._operation'])
def difference_one_sided_timezone(oi: int, later: bool) -> bool:
    """
    pre: 0 <= oi <= 4
    post: _
    """
    off = OS_OFFS[[k for k in range(5) if k == oi][0]]
    a = '2000-01-01T12:00:00' + off
    b = '2000-01-01T13:00:00' if later else '2000-01-01T12:00:00'
    r = L(T_TZ['one_sided'].evaluate(XPathContext(item=1, variables={'a': a, 'b': b})))
    want = -_OS_MIN[off] * 60 - (3600 if later else 0)       # a as instant minus b taken as UTC
    return len(r) == 5 and r[0].seconds == want and r[1].seconds == -want and r[2] is True and r[3] is (want < 0) and r[4] is (want > 0)


# --- added after the round-4 baseline reports: component extraction, commuted additions, 24:00:00 at the end of far years --------------------

T_CMP = parse_all({'secs': '(seconds-from-dateTime($d), seconds-from-time($t), string(seconds-from-dateTime($d)))',
                   'comm_dt': '($p + $d eq $d + $p, $q + $d eq $d + $q, $p + $x eq $x + $p, $q + $x eq $x + $q, $p + $t eq $t + $p)',
                   'h24': 'string(xs:dateTime($s))'})
_MICROS = (0, 1, 50, 5000, 40000, 500000, 999999)


@ob(budget=200, bound='xs:dateTime / xs:time with second 0..59 and microseconds from {0, 1, 50, 5000, 40000, 500000, 999999} (both chosen by the '
                      'solver, values concrete on each path): seconds-from-dateTime = seconds-from-time = second + microseconds / 10^6 as xs:decimal',
    funcs=['elementpath/xpath2/_xpath2_functions.py:seconds-from-dateTime/seconds-from-time'])
def seconds_component_fraction(sec: int, ui: int) -> bool:
    """
    pre: 0 <= sec <= 59 and 0 <= ui <= 6
    post: _
    """
    from decimal import Decimal
    s = [k for k in range(60) if k == sec][0]
    us = _MICROS[[k for k in range(7) if k == ui][0]]
    d = DateTime(2001, 2, 3, 4, 5, s, us)
    t = Time(4, 5, s, us)
    r = L(T_CMP['secs'].evaluate(XPathContext(item=1, variables={'d': d, 't': t})))
    want = Decimal(s) + Decimal(us) / 1000000
    return len(r) == 3 and r[0] == want and r[1] == want and Decimal(r[2]) == want


_TZY = '(timezone-from-date(xs:date($x)), timezone-from-dateTime(xs:dateTime($y)), year-from-date(xs:date($x)), year-from-dateTime(xs:dateTime($y)), ' \
       'string(xs:date($x)), string(xs:dateTime($y)), string(xs:gYear($g)), string(xs:gYearMonth($m)))'
from elementpath.xpath31 import XPath31Parser as _P31  # noqa: E402
T_TZY = {'1.0': _P31(xsd_version='1.0').parse(_TZY), '1.1': _P31(xsd_version='1.1').parse(_TZY)}
_LEX_YEARS = ('-12000', '-10000', '-9999', '-2000', '-0002', '-0001', '0000', '0001', '9999', '10000', '12000', '2000000')
_LEX_TZ = ('-14:00', '-05:00', '-01:00', 'Z', '+01:00', '+05:30', '+14:00')


@ob(budget=240, bound='xs:date / xs:dateTime / xs:gYear / xs:gYearMonth written with a lexical year from {-12000, -10000, -9999, -2000, -0002, -0001, 0000, 0001, '
                      '9999, 10000, 12000, 2000000} and a timezone from 7 designators, under XSD 1.0 and XSD 1.1 (all chosen by the solver, text concrete on '
                      'each path): timezone-from-date / -dateTime return the offset, year-from-* the year as written, string() the text as written; year '
                      '0000 is an error under XSD 1.0 only',
    funcs=['elementpath/xpath2/_xpath2_functions.py:timezone-from-date/timezone-from-dateTime/year-from-*', D + ':AbstractDateTime.iso_year', D + ':AbstractDateTime.fromstring'])
def timezone_and_year_of_far_years(yi: int, oi: int, v11: bool) -> bool:
    """
    pre: 0 <= yi <= 11 and 0 <= oi <= 6
    post: _
    """
    ys = _LEX_YEARS[[k for k in range(12) if k == yi][0]]
    k = [k for k in range(7) if k == oi][0]
    tzs, off = _LEX_TZ[k], TZ_OFFS[k]
    x, y, g, m = ys + '-06-15' + tzs, ys + '-06-15T01:02:03' + tzs, ys + tzs, ys + '-06' + tzs
    try:
        r = L(T_TZY['1.1' if v11 else '1.0'].evaluate(XPathContext(item=1, variables={'x': x, 'y': y, 'g': g, 'm': m})))
    except ElementPathError as e:
        return ys == '0000' and not v11 and err_code(e) == 'FORG0001'
    return len(r) == 8 and r[0].seconds == off * 60 and r[1].seconds == off * 60 and r[2] == int(ys) and r[3] == int(ys) and r[4:] == [x, y, g, m] \
        and not (ys == '0000' and not v11)


@ob(budget=200, bound='dayTimeDuration of -86400..86400 s in steps chosen from a table of 6, yearMonthDuration from a table of 4, date/dateTime/time in '
                      '3 years (indices chosen by the solver, concrete on each path): duration + value eq value + duration for every pairing '
                      'XPath defines (op:add-*Duration-to-date/dateTime/time are commutative)',
    funcs=[D + ':DayTimeDuration.__add__', D + ':YearMonthDuration.__add__', D + ':AbstractDateTime.__add__'])
def duration_plus_value_commutes(pi: int, qi: int, yi: int) -> bool:
    """
    pre: 0 <= pi <= 5 and 0 <= qi <= 3 and 0 <= yi <= 2
    post: _
    """
    p = DayTimeDuration(seconds=(-86400, -3661, 0, 1, 7200, 86400)[[k for k in range(6) if k == pi][0]])
    q = YearMonthDuration(months=(-13, 0, 1, 25)[[k for k in range(4) if k == qi][0]])
    y = (1999, 2000, 9000)[[k for k in range(3) if k == yi][0]]
    v = {'p': p, 'q': q, 'd': DateTime(y, 2, 28, 23, 59, 59), 'x': Date(y, 2, 28), 't': Time(23, 59, 59)}
    return L(T_CMP['comm_dt'].evaluate(XPathContext(item=1, variables=v))) == [True] * 5


_H24_YEARS = ('0001', '1999', '2000', '9998', '9999', '10000', '10001', '12000', '-0002', '-0005', '-12000')
_H24_NEXT = {'0001': '0002', '1999': '2000', '2000': '2001', '9998': '9999', '9999': '10000', '10000': '10001', '10001': '10002', '12000': '12001',
             '-0002': '-0001', '-0005': '-0004', '-12000': '-11999'}
_H24_ENDS = (('01-31', '02-01'), ('04-30', '05-01'), ('11-30', '12-01'), ('12-31', None), ('12-30', '12-31'), ('02-28', None))


def _h24_want(ys, md, nxt):
    if nxt is not None:
        return ys + '-' + nxt
    if md == '12-31':
        return _H24_NEXT[ys] + '-01-01'
    y = int(ys) if int(ys) > 0 else int(ys) + 1         # XSD 1.0 lexical -0005 is the astronomical year -4
    return ys + ('-02-29' if _is_leap(y) else '-03-01')


@ob(budget=200, bound='xs:dateTime("Y-MM-DDT24:00:00") for Y from 11 lexical years {0001, 1999, 2000, 9998, 9999, 10000, 10001, 12000, -0002, -0005, -12000} '
                      'and 6 ends of month / year (indices chosen by the solver, text concrete on each path): the value is 00:00:00 of the next day, in the '
                      'next month or the next year where the month or the year ends (XSD 1.0 year numbering)',
    funcs=[D + ':AbstractDateTime.__init__ (24:00:00 normalisation)', D + ':AbstractDateTime.fromstring'])
def hour24_at_month_and_year_ends(yi: int, ei: int) -> bool:
    """
    pre: 0 <= yi <= 10 and 0 <= ei <= 5
    post: _
    """
    ys = _H24_YEARS[[k for k in range(11) if k == yi][0]]
    md, nxt = _H24_ENDS[[k for k in range(6) if k == ei][0]]
    r = L(T_CMP['h24'].evaluate(XPathContext(item=1, variables={'s': ys + '-' + md + 'T24:00:00'})))
    return r == [_h24_want(ys, md, nxt) + 'T00:00:00']


_YM = '''
@ob(budget=300, family='yearmonth-across-eras', bound='xs:date (XSD 1.1 class) with year in {rng} (internal numbering: -1 is the year 0000), month {mlo}..{mhi}, every valid '
                      'day, yearMonthDuration of -600..600 months, {what}: the result is the month that many months away on the proleptic '
                      'Gregorian timeline (no year is skipped or counted twice at 0000/0001 and at 9999/10000), the day clamped to the length of that month',
    funcs=[D + ':AbstractDateTime._operation (YearMonthDuration)', H + ':adjust_day', D + ':AbstractDateTime.__init__'])
def yearmonth_add_across_eras_{name}(year: int, month: int, day: int, months: int) -> bool:
    \"\"\"
    pre: {pre} and year != 0 and {mlo} <= month <= {mhi} and 1 <= day <= 31 and -600 <= months <= 600
    post: _
    \"\"\"
    return _ym_across(year, month, day, months, {sub})
'''


def _ym_across(year, month, day, months, sub):
    ay = _astro(year)
    if day > _mlen(ay, month):
        return True
    d = Date(year, month, day)
    r = d - YearMonthDuration(months=-months) if sub else d + YearMonthDuration(months=months)
    tot = ay * 12 + month - 1 + months
    ty, tm = tot // 12, tot % 12 + 1
    return (r.year, r.month, r.day) == (ty if ty > 0 else ty - 1, tm, min(day, _mlen(ty, tm)))


for _era, _rng, _pre in (('bce', '[-40, 40] without 0', '-40 <= year <= 40'), ('far', '[9960, 10040]', '9960 <= year <= 10040')):
    for _sub in (False, True):
        for _mlo, _mhi in ((1, 6), (7, 12)):
            define(_YM.format(name=_era + ('_sub' if _sub else '_add') + '_m%d' % _mlo, rng=_rng, pre=_pre, sub=_sub, mlo=_mlo, mhi=_mhi,
                              what='subtracted' if _sub else 'added'), globals())


# --- added after the round-4 baseline reports: adjust-date-to-timezone gives the date of the starting instant in the new timezone -------------

_ADJ_TZ = ('-14:00', '-12:00', '-10:00', '-05:00', 'Z', '+09:30', '+10:00', '+10:30', '+12:00', '+13:00', '+14:00')
_ADJ_MIN = (-840, -720, -600, -300, 0, 570, 600, 630, 720, 780, 840)
_ADJ_DATES = (('2002-03-07', ('2002-03-05', '2002-03-06', '2002-03-07', '2002-03-08')), ('2004-03-01', ('2004-02-28', '2004-02-29', '2004-03-01', '2004-03-02')),
              ('0001-01-02', ('-0001-12-31', '0001-01-01', '0001-01-02', '0001-01-03')))      # (a date in year 10000 is SPURIOUS under CrossHair's datetime model: not claimed)
T_ADJD = parse_all({'d': 'string(adjust-date-to-timezone(xs:date($d), xs:dayTimeDuration($z)))'})['d']


@ob(budget=240, bound='xs:date from {2002-03-07, 2004-03-01, 0001-01-02} with a timezone from a table of 11 (-14:00 .. +14:00, half hours included), '
                      'adjusted to a timezone from the same table (all indices chosen by the solver, text concrete on each path): the result is the date, in the new '
                      'timezone, of the instant at which the date starts (between two days earlier and one day later), with the new timezone',
    funcs=['elementpath/xpath_tokens/base.py:adjust_datetime (xs:date branch)', D + ':AbstractDateTime._operation (DayTimeDuration)'])
def adjust_date_day_shift(oi: int, zi: int, di: int) -> bool:
    """
    pre: 0 <= oi <= 10 and 0 <= zi <= 10 and 0 <= di <= 2
    post: _
    """
    o, z = [k for k in range(11) if k == oi][0], [k for k in range(11) if k == zi][0]
    base, shifted = _ADJ_DATES[[k for k in range(3) if k == di][0]]
    shift = (_ADJ_MIN[z] - _ADJ_MIN[o]) // 1440            # whole days, rounding down: -2, -1, 0 or 1
    zmin = _ADJ_MIN[z]
    dur = ('-' if zmin < 0 else '') + 'PT%dH%dM' % (abs(zmin) // 60, abs(zmin) % 60)
    r = L(T_ADJD.evaluate(XPathContext(item=1, variables={'d': base + _ADJ_TZ[o], 'z': dur})))
    return r == [shifted[shift + 2] + _ADJ_TZ[z]]


# --- added after the round-4 baseline reports: XSD 1.0 values before the common era go to the timeline and back ------------------------------

_BCE_YEARS = (-1, -2, -4, -5, -100, -101, -400, -401, -2000, -2001, -12001)


@ob(budget=300, bound='Date10 / DateTime10 (XSD 1.0 classes) with a year from {-1, -2, -4, -5, -100, -101, -400, -401, -2000, -2001, -12001} (internal numbering: -1 = '
                      '1 BCE), month from {1, 2, 3, 12}, day from {1, 28, 29, 30, 31} (indices chosen by the solver, values concrete on each path): a day beyond the '
                      'month length of the proleptic Gregorian year is rejected; otherwise fromdelta(todelta(v)) has the same components and one day later is '
                      'the next calendar day',
    funcs=[D + ':AbstractDateTime.todelta', D + ':AbstractDateTime.fromdelta', D + ':AbstractDateTime.__init__'])
def bce_timeline_roundtrip_xsd10(yi: int, mi: int, di: int) -> bool:
    """
    pre: 0 <= yi <= 10 and 0 <= mi <= 3 and 0 <= di <= 4
    post: _
    """
    year = _BCE_YEARS[[k for k in range(11) if k == yi][0]]
    month = (1, 2, 3, 12)[[k for k in range(4) if k == mi][0]]
    day = (1, 28, 29, 30, 31)[[k for k in range(5) if k == di][0]]
    if day > _mlen(_astro(year), month):
        try:
            Date10(year, month, day)
        except ValueError:
            return True
        return False
    for cls in (Date10, DateTime10):
        v = cls(year, month, day)
        td = v.todelta()
        td = datetime.timedelta(days=int(td.days), seconds=int(td.seconds))     # (CrossHair's timedelta model keeps float fields: same value, int fields)
        r = cls.fromdelta(td)
        if (r.year, r.month, r.day) != (year, month, day):
            return False
        w = cls.fromdelta(td + datetime.timedelta(days=1))
        ny, nm, nd = (year, month, day + 1) if day < _mlen(_astro(year), month) else (year, month + 1, 1) if month < 12 else (year + 1 if year < -1 else 1, 1, 1)
        if (w.year, w.month, w.day) != (ny, nm, nd):
            return False
    return True


# --- added after the round-4 baseline reports: xs:time arithmetic is modulo 24 hours for durations of any length -----------------------------

T_TMOD = parse_all({'x': '(string($t + xs:dayTimeDuration($p)), string(xs:dayTimeDuration($p) + $t), string($t - xs:dayTimeDuration($q)))'})['x']
_TMOD_DAYS = (0, 1, 365, 3000000, 999999999, 10 ** 12)
_TMOD_SECS = (0, 1, 3599, 3600, 43200, 86399)


@ob(budget=400, bound='xs:time hh:30:00 for hh in {0, 12, 23}, dayTimeDuration of {0, 1, 365, 3000000, 999999999, 10^12} days plus {0, 1, 3599, 3600, 43200, 86399} seconds, optionally '
                      'negated (all chosen by the solver, concrete on each path): t + p, p + t and t - (-p) are the time of day (h*3600 + 1800 + p) mod 86400',
    funcs=[D + ':Time.__add__', D + ':Time.__sub__', D + ':DayTimeDuration.__add__'])
def time_arithmetic_modulo_day(h: int, di: int, si: int, neg: bool) -> bool:
    """
    pre: 0 <= h <= 2 and 0 <= di <= 5 and 0 <= si <= 5
    post: _
    """
    h = (0, 12, 23)[[k for k in range(3) if k == h][0]]
    days, secs = _TMOD_DAYS[[k for k in range(6) if k == di][0]], _TMOD_SECS[[k for k in range(6) if k == si][0]]
    lex = 'P%dDT%dS' % (days, secs)
    p, q = ('-' + lex, lex) if neg else (lex, '-' + lex)
    tot = (h * 3600 + 1800 + (-1 if neg else 1) * (days * 86400 + secs)) % 86400
    want = '%02d:%02d:%02d' % (tot // 3600, tot % 3600 // 60, tot % 60)
    return L(T_TMOD.evaluate(XPathContext(item=1, variables={'t': Time(h, 30, 0), 'p': p, 'q': q}))) == [want] * 3
