"""Shared helpers for harness modules: parsers, concrete parsing of fixed templates, evaluation entry."""
from verif_lib.env import boot, ob, define, pyet, PLAIN, REPO  # noqa: F401
boot()
from elementpath import XPath1Parser, XPath2Parser, XPathContext, ElementPathError  # noqa: E402
from elementpath.xpath3 import XPath3Parser  # noqa: E402
from elementpath.xpath30 import XPath30Parser  # noqa: E402
from elementpath.xpath31 import XPath31Parser  # noqa: E402

if not PLAIN:
    from verif_lib import ch_fixes as _chf
    _chf.patch_elementpath()

P1 = XPath1Parser()
P2 = XPath2Parser()
P30 = XPath30Parser()
P31 = XPath31Parser()
P = P31


def parse_all(templates, parser=None):
    parser = parser or P31
    return {k: parser.parse(v) for k, v in templates.items()}


def L(r):
    return r if isinstance(r, list) else [r]


def ev(tok, **variables):
    """Evaluate a concretely parsed token through the public entry, symbolic values supplied as variables."""
    return L(tok.evaluate(XPathContext(item=1, variables=variables)))


def err_code(e):
    """The W3C error code carried by an ElementPathError ('' when absent)."""
    code = getattr(e, 'code', None) or ''
    return code.split(':')[-1]
