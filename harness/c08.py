"""C08 — sequence expressions and sequence/aggregate functions equal the F&O list model (DESIGN §4 C08)."""
from harness.common import *  # noqa: F401,F403
from harness.common import ob, ev, parse_all, ElementPathError, err_code

F2 = 'elementpath/xpath2/_xpath2_functions.py'
INFO = dict(
    level='other',
    explanation='Bounded symbolic execution (CrossHair + z3) of the real evaluator: each obligation evaluates a concretely parsed '
                'XPath template through token.evaluate(XPathContext(item=1, variables=...)) with the sequence items, positions '
                'and lengths as solver variables and asserts equality with the F&O list model written in the harness.',
    assumptions=['templates are parsed concretely; only values are symbolic', 'sequences of at most 3 atomic integer items '
                 '(strings only where stated); node sequences are covered structurally by C01',
                 'CrossHair models of int/str/list/Decimal are faithful (counterexamples are replayed on the plain package)',
                 'double/decimal arguments of subsequence are outside the E1 claim (DESIGN C08)'])
T = parse_all({
    'subseq': 'subsequence($S, $a, $b)', 'subseq2': 'subsequence($S, $a)', 'remove': 'remove($S, $a)',
    'insert': 'insert-before($S, $a, $x)', 'indexof': 'index-of($S, $x)', 'pred': '$S[$a]',
    'every_some': '(every $x in $S satisfies $x gt $k) = not(some $x in $S satisfies not($x gt $k))',
    'every': 'every $x in $S satisfies $x gt $k', 'some': 'some $x in $S satisfies $x gt $k',
    'sum': 'sum($S)', 'max': 'max($S)', 'min': 'min($S)', 'avg': 'avg($S) * count($S) = sum($S)',
    'dv': 'distinct-values($S)', 'rev': 'reverse($S)', 'cnt': 'count($S)', 'to': '$a to $b',
    'sj': 'string-join(for $x in $S return string($x), "-")',
    'subseq_eq': 'deep-equal(subsequence($S, $a, $b), $S[$a le position() and position() lt $a + $b])',
    'z1': 'zero-or-one($S)', 'o1': 'one-or-more($S)', 'e1': 'exactly-one($S)',
    'ht': '(head($S), tail($S))', 'map': '$S ! (. * 2)', 'pospred': '$S[position() = last()]',
    'comma': '($S, $x, $S)', 'empty': '(empty($S), exists($S))', 'predcond': '$S[. gt $k]',
    'for2': 'for $x in $S, $y in $R return $x * $y', 'forpos': 'for $x in $S return ($x, $x + 1)',
    'poslast': '$S ! (position(), last())', 'predpos': '$S[position() gt $a]',
    'sum0': 'sum($S, $z)', 'predfocus': '$S[.]', 'predposfn': '$S[position()]', 'predlast': '$S[last()]',
    'predarith': '$S[$a + 1]', 'predseq': '($S, $x)[. = $x][$a]', 'sjsep': 'string-join(("a","b","c")[position() le $n], $sep)',
})


def _S(s0, s1, s2, n):
    return [s0, s1, s2][:n]


@ob(budget=150, bound='S: 0..3 unbounded ints; a, b in [-2, 5] (round_number realises its operand through Decimal.quantize)',
    funcs=[F2 + ':subsequence', 'elementpath/helpers.py:round_number'])
def subseq(s0: int, s1: int, s2: int, n: int, a: int, b: int) -> bool:
    """
    pre: 0 <= n <= 3 and -2 <= a <= 5 and -2 <= b <= 5
    post: _
    """
    S = _S(s0, s1, s2, n)
    return ev(T['subseq'], S=S, a=a, b=b) == [v for p, v in enumerate(S, 1) if a <= p < a + b]


@ob(budget=90, bound='S: 0..3 unbounded ints; a in [-3, 6]', funcs=[F2 + ':subsequence'])
def subseq2(s0: int, s1: int, s2: int, n: int, a: int) -> bool:
    """
    pre: 0 <= n <= 3 and -3 <= a <= 6
    post: _
    """
    S = _S(s0, s1, s2, n)
    return ev(T['subseq2'], S=S, a=a) == [v for p, v in enumerate(S, 1) if a <= p]


@ob(budget=120, bound='S: 0..3 unbounded ints; a: unbounded int', funcs=[F2 + ':remove'])
def remove(s0: int, s1: int, s2: int, n: int, a: int) -> bool:
    """
    pre: 0 <= n <= 3
    post: _
    """
    S = _S(s0, s1, s2, n)
    return ev(T['remove'], S=S, a=a) == [v for p, v in enumerate(S, 1) if p != a]


@ob(budget=120, bound='S: 0..3 unbounded ints; a, x: unbounded ints', funcs=[F2 + ':insert-before'])
def insert(s0: int, s1: int, s2: int, n: int, a: int, x: int) -> bool:
    """
    pre: 0 <= n <= 3
    post: _
    """
    S = _S(s0, s1, s2, n)
    k = min(max(a, 1), n + 1)
    return ev(T['insert'], S=S, a=a, x=x) == S[:k - 1] + [x] + S[k - 1:]


@ob(budget=120, bound='S: 0..3 unbounded ints; x: unbounded int', funcs=[F2 + ':index-of'])
def indexof(s0: int, s1: int, s2: int, n: int, x: int) -> bool:
    """
    pre: 0 <= n <= 3
    post: _
    """
    S = _S(s0, s1, s2, n)
    return ev(T['indexof'], S=S, x=x) == [p for p, v in enumerate(S, 1) if v == x]


@ob(budget=120, bound='S: 0..3 unbounded ints; a: unbounded int', funcs=['elementpath/xpath1/_xpath1_operators.py:[ predicate'])
def pred(s0: int, s1: int, s2: int, n: int, a: int) -> bool:
    """
    pre: 0 <= n <= 3
    post: _
    """
    S = _S(s0, s1, s2, n)
    return ev(T['pred'], S=S, a=a) == [v for p, v in enumerate(S, 1) if p == a]


@ob(budget=200, bound='S: 0..3 unbounded ints; k: unbounded int',
    funcs=['elementpath/xpath2/_xpath2_operators.py:some/every'])
def every_some(s0: int, s1: int, s2: int, n: int, k: int) -> bool:
    """
    pre: 0 <= n <= 3
    post: _
    """
    S = _S(s0, s1, s2, n)
    return ev(T['every_some'], S=S, k=k) == [True] and ev(T['every'], S=S, k=k) == [all(v > k for v in S)] \
        and ev(T['some'], S=S, k=k) == [any(v > k for v in S)]


@ob(budget=60, bound='S: 0..3 unbounded ints', funcs=[F2 + ':sum'])
def sum_(s0: int, s1: int, s2: int, n: int, z: int) -> bool:
    """
    pre: 0 <= n <= 3
    post: _
    """
    S = _S(s0, s1, s2, n)
    return ev(T['sum'], S=S) == [sum(S)] and ev(T['sum0'], S=S, z=z) == [sum(S) if S else z]


@ob(budget=90, bound='S: 0..3 unbounded ints', funcs=[F2 + ':max', F2 + ':min'])
def maxmin(s0: int, s1: int, s2: int, n: int) -> bool:
    """
    pre: 0 <= n <= 3
    post: _
    """
    S = _S(s0, s1, s2, n)
    return ev(T['max'], S=S) == ([max(S)] if S else []) and ev(T['min'], S=S) == ([min(S)] if S else [])


@ob(budget=90, bound='S: 0..3 unbounded ints', funcs=[F2 + ':distinct-values'])
def distinct(s0: int, s1: int, s2: int, n: int) -> bool:
    """
    pre: 0 <= n <= 3
    post: _
    """
    S = _S(s0, s1, s2, n)
    out = []
    for v in S:
        if v not in out:
            out.append(v)
    return ev(T['dv'], S=S) == out


@ob(budget=60, bound='a unbounded int, b - a in [-3, 4]', funcs=['elementpath/xpath2/_xpath2_operators.py:to'])
def range_(a: int, b: int) -> bool:
    """
    pre: -3 <= b - a <= 4
    post: _
    """
    return ev(T['to'], a=a, b=b) == list(range(a, b + 1))


@ob(budget=150, bound='S: 0..3 unbounded ints; a, b in [-2, 5]',
    funcs=[F2 + ':subsequence', 'elementpath/xpath1/_xpath1_operators.py:[ predicate', 'position()', 'last()'])
def subseq_equiv(s0: int, s1: int, s2: int, n: int, a: int, b: int) -> bool:
    """
    pre: 0 <= n <= 3 and -2 <= a <= 5 and -2 <= b <= 5
    post: _
    """
    return ev(T['subseq_eq'], S=_S(s0, s1, s2, n), a=a, b=b) == [True]


@ob(budget=60, bound='S: 0..3 unbounded ints', funcs=[F2 + ':zero-or-one', F2 + ':one-or-more', F2 + ':exactly-one'])
def cardinality(s0: int, s1: int, s2: int, n: int) -> bool:
    """
    pre: 0 <= n <= 3
    post: _
    """
    S = _S(s0, s1, s2, n)
    for key, ok, code in (('z1', n <= 1, 'FORG0003'), ('o1', n >= 1, 'FORG0004'), ('e1', n == 1, 'FORG0005')):
        try:
            r = ev(T[key], S=S)
        except ElementPathError as e:
            if ok or err_code(e) != code:
                return False
            continue
        if not ok or r != S:
            return False
    return True


@ob(budget=120, bound='S: 0..3 unbounded ints',
    funcs=['head', 'tail', 'reverse', 'count', 'simple map !', 'position()', 'last()', 'empty', 'exists'])
def head_tail_map(s0: int, s1: int, s2: int, n: int) -> bool:
    """
    pre: 0 <= n <= 3
    post: _
    """
    S = _S(s0, s1, s2, n)
    return ev(T['ht'], S=S) == S and ev(T['map'], S=S) == [2 * v for v in S] and ev(T['pospred'], S=S) == S[-1:] \
        and ev(T['rev'], S=S) == S[::-1] and ev(T['cnt'], S=S) == [n] and ev(T['empty'], S=S) == [n == 0, n > 0] \
        and ev(T['poslast'], S=S) == [x for p in range(1, n + 1) for x in (p, n)]


@ob(budget=120, bound='S: 0..3 unbounded ints; x, k, a unbounded ints', funcs=['comma operator', 'predicate E[cond]'])
def comma_pred(s0: int, s1: int, s2: int, n: int, x: int, k: int, a: int) -> bool:
    """
    pre: 0 <= n <= 3
    post: _
    """
    S = _S(s0, s1, s2, n)
    return ev(T['comma'], S=S, x=x) == S + [x] + S and ev(T['predcond'], S=S, k=k) == [v for v in S if v > k] \
        and ev(T['predpos'], S=S, a=a) == [v for p, v in enumerate(S, 1) if p > a]


@ob(budget=120, bound='S: 0..2, R: 0..2 unbounded ints', funcs=['for expression (1-2 variables)'])
def for_expr(s0: int, s1: int, n: int, r0: int, r1: int, m: int) -> bool:
    """
    pre: 0 <= n <= 2 and 0 <= m <= 2
    post: _
    """
    S = [s0, s1][:n]
    R = [r0, r1][:m]
    return ev(T['for2'], S=S, R=R) == [x * y for x in S for y in R] \
        and ev(T['forpos'], S=S) == [z for x in S for z in (x, x + 1)]


@ob(budget=120, bound='S: 0..3 ints in [-99, 99] (rendered through string())', funcs=[F2 + ':string-join'])
def string_join(s0: int, s1: int, s2: int, n: int) -> bool:
    """
    pre: 0 <= n <= 3 and all(-99 <= v <= 99 for v in (s0, s1, s2))
    post: _
    """
    S = _S(s0, s1, s2, n)
    return ev(T['sj'], S=S) == ['-'.join(str(v) for v in S)]


@ob(budget=120, bound='n in 0..3 items, separator: any string of length <= 2', funcs=[F2 + ':string-join'])
def string_join_sep(n: int, sep: str) -> bool:
    """
    pre: 0 <= n <= 3 and len(sep) <= 2
    post: _
    """
    return ev(T['sjsep'], n=n, sep=sep) == [sep.join(['a', 'b', 'c'][:n])]


@ob(tier='thorough', budget=60, tbudget=300, bound='S: 1..3 unbounded ints (avg*count = sum, exact; Decimal division: not exhaustible)',
    funcs=[F2 + ':avg'], kind='hunt')
def avg_(s0: int, s1: int, s2: int, n: int) -> bool:
    """
    pre: 1 <= n <= 3
    post: _
    """
    return ev(T['avg'], S=_S(s0, s1, s2, n)) == [True]


@ob(tier='thorough', budget=60, tbudget=600, kind='hunt', bound='S: 0..3 unbounded ints; a, b unbounded ints (bug-hunting)',
    funcs=[F2 + ':subsequence'])
def subseq_unbounded(s0: int, s1: int, s2: int, n: int, a: int, b: int) -> bool:
    """
    pre: 0 <= n <= 3 and -2**40 <= a <= 2**40 and -2**40 <= b <= 2**40
    post: _
    """
    S = _S(s0, s1, s2, n)
    return ev(T['subseq'], S=S, a=a, b=b) == [v for p, v in enumerate(S, 1) if a <= p < a + b]


@ob(budget=120, bound='S: 0..3 unbounded ints: numeric predicates whose value depends on the focus (E[.], E[position()], E[last()], E[$a+1])',
    funcs=['elementpath/xpath1/_xpath1_operators.py:select__predicate', 'position()', 'last()'])
def pred_numeric_focus(s0: int, s1: int, s2: int, n: int, a: int) -> bool:
    """
    pre: 0 <= n <= 3
    post: _
    """
    S = _S(s0, s1, s2, n)
    return ev(T['predfocus'], S=S) == [v for p, v in enumerate(S, 1) if v == p] and ev(T['predposfn'], S=S) == S \
        and ev(T['predlast'], S=S) == S[-1:] and ev(T['predarith'], S=S, a=a) == [v for p, v in enumerate(S, 1) if p == a + 1]


@ob(budget=120, bound='S: 0..3 unbounded ints, x, a unbounded: chained predicates (E, x)[. = x][a]', funcs=['select__predicate'])
def pred_chained(s0: int, s1: int, s2: int, n: int, x: int, a: int) -> bool:
    """
    pre: 0 <= n <= 3
    post: _
    """
    S = _S(s0, s1, s2, n)
    hits = [v for v in S + [x] if v == x]
    return ev(T['predseq'], S=S, x=x, a=a) == [v for p, v in enumerate(hits, 1) if p == a]


@ob(budget=60, tbudget=600, kind='hunt', bound='S: 3 ints; start, length exact quarter-integer doubles k/4, |k| <= 24 (doubles: bug-hunting; the rounding rule itself is decided by the E2 obligation)',
    funcs=[F2 + ':select__subsequence', 'elementpath/helpers.py:round_number'])
def subseq_fractional(k: int, j: int) -> bool:
    """
    pre: -24 <= k <= 24 and -24 <= j <= 24
    post: _
    """
    S = [10, 20, 30]
    a, b = k / 4, j / 4
    ra, rb = (2 * k + 4) // 8, (2 * j + 4) // 8       # floor(x + 1/2) for x = k/4
    return ev(T['subseq'], S=S, a=a, b=b) == [v for p, v in enumerate(S, 1) if ra <= p < ra + rb]


# --- E2: index arithmetic of fn:subsequence for all rational arguments ------------------------------------------------------

import z3  # noqa: E402
from verif_lib import py2smt as PS  # noqa: E402
from harness.e2util import Queries, mval  # noqa: E402
from harness.common import P31  # noqa: E402


def _subsequence_e2(nargs):
    q = Queries(timeout_s=60, diff_binary=False)
    cls = P31.symbol_table['subsequence']
    pyfn = getattr(cls.select, '__func__', cls.select)
    a, b = z3.Real('a'), z3.Real('b')

    def get_argument(fn, context, index=0, default=None, cls=None, required=False):
        return {1: PS.Sym(a, float), 2: PS.Sym(b, float)}[index]
    me = PS.Obj('self', dict(context=None), length=nargs)
    try:
        r = PS.translate(pyfn, [me, None], stubs={'self.get_argument': get_argument, 'self[0].select': lambda fn, ctx: PS.Obj('items')},
                         procedure=True)
    except PS.Unsupported as e:
        return q.result(not_encodable=str(e))
    fn = r['fn']
    if len(r['loop_positions']) < 1 or not r['yields']:
        return q.result(not_encodable='no loop / yield found in select__subsequence')
    cex = []
    # every loop of the function enumerates the same input sequence from 1: quantify over one position p
    p = z3.Int('p')
    subs = [(lp, p) for lp in r['loop_positions']]
    yielded = z3.Or(*[z3.substitute(c, *subs) for c, _ in r['yields']])
    ra = fn.floor(a + z3.RealVal('1/2'))
    if nargs == 3:
        rb = fn.floor(b + z3.RealVal('1/2'))
        want = z3.And(ra <= p, p < ra + rb)
    else:
        want = ra <= p
    base = [z3.substitute(c, *subs) for c in fn.side] + [p >= 1]
    res, m0 = q.check('reach', base + [yielded], expect='sat')
    q.sat = []
    if m0 is not None:
        q.samples.append('a=%s b=%s p=%s' % (mval(m0, a), mval(m0, b), mval(m0, p)))
    q.check('never raises', base + [r['raised']])
    res, m = q.check('item at position p is selected iff round(a) <= p < round(a)+round(b)', base + [yielded != want])
    if res == 'sat':
        # prefer a small witness for the replay (the unsat claim above is unbounded; this only shrinks the counterexample)
        res2, m2 = q.check('small witness', base + [yielded != want, a >= -8, a <= 8, b >= -8, b <= 8, p <= 16], expect='sat')
        q.sat = [x for x in q.sat if x[0] != 'small witness']
        if m2 is not None:
            m = m2
        cex.append(dict(call='replay_subsequence(%r, %r, %d)' % (str(mval(m, a)), str(mval(m, b)) if nargs == 3 else None, nargs),
                        message='subsequence differs from F&O at a=%s b=%s p=%s' % (mval(m, a), mval(m, b), mval(m, p))))
    return q.result(cex, detail=dict(stubs=sorted(set(r['notes']))))


def replay_subsequence(a_s, b_s, nargs):
    from fractions import Fraction
    import math as _m
    a = Fraction(a_s)
    fa = a.numerator / a.denominator
    if Fraction(fa) != a:
        return True
    ra = _m.floor(a + Fraction(1, 2))
    if ra >= 200000:
        return True                     # replay window too large: reported as not reproduced
    S = list(range(1, max(ra, 1) + 12))
    if nargs == 3:
        b = Fraction(b_s)
        fb = b.numerator / b.denominator
        if Fraction(fb) != b:
            return True
        rb = _m.floor(b + Fraction(1, 2))
        return ev(T['subseq'], S=S, a=fa, b=fb) == [v for p, v in enumerate(S, 1) if ra <= p < ra + rb]
    return ev(T['subseq2'], S=S, a=fa) == [v for p, v in enumerate(S, 1) if ra <= p]


@ob(engine='z3', budget=120, bound='all rational start and length, all positions p >= 1 (three-argument form)',
    funcs=[F2 + ':select__subsequence', 'elementpath/helpers.py:round_number'])
def e2_subsequence3(ctx):
    return _subsequence_e2(3)


@ob(engine='z3', budget=120, bound='all rational start, all positions p >= 1 (two-argument form)',
    funcs=[F2 + ':select__subsequence', 'elementpath/helpers.py:round_number'])
def e2_subsequence2(ctx):
    return _subsequence_e2(2)


# --- added after round-2 seeded changes: mixed numeric carriers in value-based sequence functions; shadowing quantifiers -----------

from decimal import Decimal  # noqa: E402
T.update(parse_all({'dv_mixed': 'distinct-values(($a, $b, $c))', 'io_mixed': 'index-of(($a, $b, $c), $a)', 'mm_mixed': '(max(($a, $b, $c)) ge min(($a, $b, $c)), count(distinct-values(($a, $b, $c))) = count(distinct-values(($c, $b, $a))))',
                    'shadow_some': 'for $x in $S return ((some $x in ($k, $k + 1) satisfies $x gt $k), $x)',
                    'shadow_every': 'let $x := $k return ((every $x in $S satisfies $x ge $x), $x, (some $x in $S satisfies $x lt $k), $x)'}))


def _carrier(k, t):
    return k if t == 0 else (Decimal(k) if t == 1 else float(k))


@ob(budget=60, tbudget=600, kind='hunt', bound='three values k in [-2, 2], each as xs:integer, xs:decimal or xs:double (carrier chosen by the solver): distinct-values keeps the first of eq-equal items, index-of finds all eq-equal items (Decimal/double: bug-hunting)',
    funcs=[F2 + ':select__distinct_values', F2 + ':index-of'])
def distinct_values_mixed_numeric(ka: int, kb: int, kc: int, ta: int, tb: int, tc: int) -> bool:
    """
    pre: all(-2 <= k <= 2 for k in (ka, kb, kc)) and all(0 <= t <= 2 for t in (ta, tb, tc))
    post: _
    """
    # values and carriers concrete on each path (symbolic ints inside Decimal/float made the engine give up: 'Unexpected unsat')
    ka, kb, kc = ([k for k in range(-2, 3) if k == x][0] for x in (ka, kb, kc))
    ta, tb, tc = ([t for t in range(3) if t == x][0] for x in (ta, tb, tc))
    ks = [ka, kb, kc]
    vals = [_carrier(ka, ta), _carrier(kb, tb), _carrier(kc, tc)]
    want = []
    for k in ks:
        if k not in want:
            want.append(k)
    r = ev(T['dv_mixed'], a=vals[0], b=vals[1], c=vals[2])
    return [int(x) for x in r] == want and ev(T['io_mixed'], a=vals[0], b=vals[1], c=vals[2]) == [i + 1 for i, k in enumerate(ks) if k == ka] \
        and ev(T['mm_mixed'], a=vals[0], b=vals[1], c=vals[2]) == [True, True]


_DV = '''
@ob(budget=45, tbudget=400, kind='hunt', family='distinct-mixed', bound='distinct-values / index-of over ({ca}, {cb}) with integer values in [-2, 2] (Decimal/double: not exhaustible, bug-hunting)', funcs=[F2 + ':select__distinct_values'])
def distinct_values_{name}(ka: int, kb: int) -> bool:
    """
    pre: -2 <= ka <= 2 and -2 <= kb <= 2
    post: _
    """
    a, b = _carrier(ka, {ta}), _carrier(kb, {tb})
    r = ev(T['dv2'], a=a, b=b)
    return [int(x) for x in r] == ([ka] if ka == kb else [ka, kb]) and ev(T['io2'], a=a, b=b) == ([1, 2] if ka == kb else [2])
'''
T.update(parse_all({'dv2': 'distinct-values(($a, $b))', 'io2': 'index-of(($a, $b), $b)'}))
for _n, (_ta, _tb, _ca, _cb) in {'int_dec': (0, 1, 'xs:integer', 'xs:decimal'), 'int_dbl': (0, 2, 'xs:integer', 'xs:double'), 'dec_int': (1, 0, 'xs:decimal', 'xs:integer'),
                                 'dbl_int': (2, 0, 'xs:double', 'xs:integer'), 'dec_dbl': (1, 2, 'xs:decimal', 'xs:double'), 'dbl_dec': (2, 1, 'xs:double', 'xs:decimal')}.items():
    define(_DV.format(name=_n, ta=_ta, tb=_tb, ca=_ca, cb=_cb), globals())


@ob(budget=120, bound='S: 0..3 unbounded ints, k unbounded: a quantifier re-using the name of an enclosing for/let variable does not change it',
    funcs=['elementpath/xpath2/_xpath2_operators.py:evaluate__quantified_expressions'])
def quantifier_shadowing(s0: int, s1: int, s2: int, n: int, k: int) -> bool:
    """
    pre: 0 <= n <= 3
    post: _
    """
    S = _S(s0, s1, s2, n)
    return ev(T['shadow_some'], S=S, k=k) == [x for v in S for x in (True, v)] \
        and ev(T['shadow_every'], S=S, k=k) == [True, k, any(v < k for v in S), k]


# --- added after a defect found through C02's fragment check: multi-variable for/some/every over NODE ranges (focus of each range) -------

from harness.common import L, XPathContext, pyet  # noqa: E402
_ET = pyet()
_P4 = (-1, 0, 1, 0)                                 # r(x(y), z)
T.update(parse_all({
    'for2_nodes': 'for $x in descendant-or-self::*, $y in descendant-or-self::* return concat(local-name($x), local-name($y))',
    'for2_child': 'for $x in *, $y in * return concat(local-name($x), local-name($y), local-name(.))',
    'for3_mixed': 'for $x in ($k, $k + 1), $y in *, $z in descendant::*[local-name() = local-name($y)] return ($x, local-name($z))',
    'some2_nodes': 'some $x in descendant-or-self::*, $y in descendant-or-self::* satisfies (local-name($x) = "a" and local-name($y) = "b" and $x >> $y)',
    'every2_nodes': 'every $x in descendant-or-self::*, $y in * satisfies (local-name($y) = "a" or local-name(.) = "b")',
    'some_focus': 'some $x in descendant::* satisfies local-name(.) = "a"',
}))


@ob(budget=450, bound='4-element tree r(x(y), z): tags over {a,b}; k unbounded int; context item the root element or the document: for/some/every '
                      'with 2-3 range expressions that are axis steps = the list-comprehension model (each range and the body evaluated '
                      'with the focus of the whole expression)',
    funcs=['elementpath/xpath_context.py:XPathContext.iter_product', 'elementpath/xpath2/_xpath2_operators.py:select__for_expression',
           'elementpath/xpath2/_xpath2_operators.py:evaluate__quantified_expressions'])
def multi_range_over_nodes(t0: str, t1: str, t2: str, t3: str, k: int, as_tree: bool) -> bool:
    """
    pre: all(len(t) == 1 and 'a' <= t <= 'b' for t in (t0, t1, t2, t3))
    post: _
    """
    tags = [t0, t1, t2, t3]
    els = [_ET.Element(t) for t in tags]
    for i, p in enumerate(_P4):
        if p >= 0:
            els[p].append(els[i])
    doc = _ET.ElementTree(els[0])
    root = doc if as_tree else els[0]
    # the focus is the root element in both configurations
    run = lambda key, **v: L(T[key].evaluate(XPathContext(root, item=els[0], variables=v)))   # noqa: E731
    kids = [1, 3]
    desc = [1, 2, 3]
    m_for3 = [w for x in (k, k + 1) for y in kids for z in desc if tags[z] == tags[y] for w in (x, tags[z])]
    m_some = any(tags[i] == 'a' and tags[j] == 'b' and i > j for i in range(4) for j in range(4))
    m_every = all(tags[j] == 'a' or tags[0] == 'b' for _ in range(4) for j in kids)
    return run('for2_nodes') == [tags[i] + tags[j] for i in range(4) for j in range(4)] \
        and run('for2_child') == [tags[i] + tags[j] + tags[0] for i in kids for j in kids] \
        and run('for3_mixed', k=k) == m_for3 and run('some2_nodes') == [m_some] and run('every2_nodes') == [m_every] \
        and run('some_focus') == [tags[0] == 'a']


# --- added after a defect reported during round 3: operands of the comma operator are each evaluated with the focus of the whole ---------
#     expression (an early-exit consumer of a filter in one operand must not move the context item seen by the next operand)

T.update(parse_all({
    'comma_focus_map': '$S ! (exists(($a, $b)[. gt $k]), .)',
    'comma_focus_for': 'for $x in $S return (exists(($a, $b)[. gt $k]), $x)',
    'comma_focus_pred': '$S[(exists(($a, $b)[. gt $k]), .)[2] = $k]',
    'comma_focus_arg': '$S ! count((head(($a, $b)[. gt $k]), .[. gt $k]))',
}))


@ob(budget=200, bound='S: 0..3 unbounded ints; a, b, k unbounded: comma operands after a filter consumed by exists()/head() see the outer focus '
                      '(simple map, predicate, function argument) = the for-expression / list model',
    funcs=['elementpath/xpath2/_xpath2_operators.py:evaluate__comma_operator', 'elementpath/xpath30/_xpath30_operators.py:select__simple_map_operator'])
def comma_operands_share_focus(s0: int, s1: int, s2: int, n: int, a: int, b: int, k: int) -> bool:
    """
    pre: 0 <= n <= 3
    post: _
    """
    S = _S(s0, s1, s2, n)
    e = a > k or b > k
    hits = (1 if e else 0)
    return ev(T['comma_focus_map'], S=S, a=a, b=b, k=k) == [w for x in S for w in (e, x)] \
        and ev(T['comma_focus_for'], S=S, a=a, b=b, k=k) == [w for x in S for w in (e, x)] \
        and ev(T['comma_focus_pred'], S=S, a=a, b=b, k=k) == [x for x in S if x == k] \
        and ev(T['comma_focus_arg'], S=S, a=a, b=b, k=k) == [hits + (1 if x > k else 0) for x in S]


# --- added after round-4 seeded changes: NaN never equals NaN in index-of, also when both are the same Python object -------------------------

T.update(parse_all({'nan_index': 'index-of(($a, $n, $b, $n), $n)', 'nan_index_num': 'index-of(($a, $n, $b), $b)', 'nan_distinct': 'count(distinct-values(($n, $a, $n, number("x"))))',
                    'nan_eq': '($n = $n, $n eq $n, $n != $n, ($a, $n) = $n)'}))


@ob(budget=120, bound='a, b in {0, 1}, n the xs:double NaN passed as ONE variable value (one Python object): index-of never finds NaN, '
                      'distinct-values keeps a single NaN, = and eq on NaN are false',
    funcs=['elementpath/collations.py:CollationManager.eq', 'elementpath/xpath2/_xpath2_functions.py:index-of/distinct-values'])
def nan_identity_is_not_equality(ab: bool, bb: bool) -> bool:
    """
    post: _
    """
    a, b = (1 if ab else 0), (1 if bb else 0)
    n = float('nan')
    v = dict(a=a, b=b, n=n)
    return ev(T['nan_index'], **v) == [] and ev(T['nan_index_num'], **v) == ([1, 3] if a == b else [3]) \
        and ev(T['nan_distinct'], **v) == [2] and ev(T['nan_eq'], **v) == [False, False, True, False]
