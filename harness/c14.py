"""C14 — fn:path and node path strings identify each node uniquely (DESIGN §4 C14)."""
from harness.common import ob, define, parse_all, L, P31, XPathContext, pyet, PLAIN
from elementpath.tree_builders import build_node_tree
from elementpath.etree import etree_iter_paths
from elementpath.xpath_nodes import ElementNode, TextNode, CommentNode, ProcessingInstructionNode, DocumentNode

N = 'elementpath/xpath_nodes.py'
INFO = dict(
    level='other',
    explanation='Bounded symbolic execution (CrossHair + z3): on enumerated sibling arrangements (elements, text, comments, processing '
                'instructions, one nesting level) with element tags and PI targets as solver variables over {a,b,c} and the root kind '
                'enumerated (document / element / fragment), node.path and fn:path(.) are computed by the real code and (a) distinct '
                'nodes get distinct path strings, (b) every step\'s [k] equals 1 + the number of preceding siblings with the same '
                'expanded name (elements), kind (text, comment) or target (PIs) — the numbering XPath\'s positional predicate applies '
                '(decided for child::E[$n] under C01), (c) etree_iter_paths agrees with node.path for elements.',
    assumptions=['arrangements enumerated (3), labels symbolic over a three-letter alphabet',
                 're-evaluating the returned string needs the parser on symbolic text (tokenizer out of reach): the round trip is '
                 'established by (a)+(b)+C01 for the names of the alphabet, and concretely on replay only'])
ET = pyet()
T_PATH = P31.parse('path(.)')


def _mk(t0, t1, t2, t3, p1, p2, doc):
    r = ET.Element(t0)
    a = ET.SubElement(r, t1)
    a.tail = 'x'
    r.append(ET.Comment('c1'))
    b = ET.SubElement(r, t2)
    if t3 is not None:
        ET.SubElement(b, t3)
    r.append(ET.ProcessingInstruction(p1, 'd'))
    pi2 = ET.ProcessingInstruction(p2, 'e')
    pi2.tail = 'z'
    r.append(pi2)
    r.append(ET.Comment('c2'))
    ET.SubElement(r, t1)
    return r


def _c(t):
    """solver case split on a label: afterwards the label is a concrete string and path strings are built concretely"""
    return 'a' if t == 'a' else ('b' if t == 'b' else 'c')


def _kind(n):
    if isinstance(n, ElementNode):
        return ('e', n.name)
    if isinstance(n, TextNode):
        return ('t', None)
    if isinstance(n, CommentNode):
        return ('c', None)
    if isinstance(n, ProcessingInstructionNode):
        return ('p', n.name)
    return ('d', None)


def _expected_step(n):
    k, name = _kind(n)
    sibs = n.parent.children if n.parent is not None else [n]
    pos = 0
    for s in sibs:
        if _kind(s) == (k, name):
            pos += 1
        if s is n:
            break
    if k == 'e':
        return 'Q{}%s[%d]' % (name, pos)
    if k == 't':
        return 'text()[%d]' % pos
    if k == 'c':
        return 'comment()[%d]' % pos
    return 'processing-instruction(%s)[%d]' % (name, pos)


def _walk(root):
    out = []
    stack = [root]
    while stack:
        n = stack.pop()
        out.append(n)
        stack.extend(reversed(getattr(n, 'children', None) or []))
    return out


_SRC = '''
@ob(budget=150, tbudget=900, bound='root({what}) with 8 child nodes (3 elements, 2 text, 2 comments, 2 PIs) and one grandchild; tags t0..t3 and PI targets p1,p2 over {alpha} (quick tier: t3 and p2 fixed)',
    funcs=[N + ':path', N + ':get_child_position', 'elementpath/xpath30/_xpath30_functions.py:evaluate__path', 'elementpath/etree.py:etree_iter_paths'])
def paths_{name}(t0: str, t1: str, t2: str, t3: str, p1: str, p2: str) -> bool:
    """
    pre: all(len(t) == 1 and 'a' <= t <= '{top}' for t in {prevars})
    post: _
    """
    r = _mk(_c(t0), _c(t1), _c(t2), {t3e}, _c(p1), {p2e}, {doc})
    root = build_node_tree(ET.ElementTree(r) if {doc} else r{frag})
    nodes = [n for n in _walk(root) if not isinstance(n, DocumentNode)]
    paths = [n.path for n in nodes]
    if len(set(paths)) != len(paths):
        return False
    for n, p in zip(nodes, paths):
        # (b) last step numbering; parent prefix
        if not p.endswith('/' + _expected_step(n)):
            return False
        if n.parent is not None and not isinstance(n.parent, DocumentNode) and p != n.parent.path + '/' + _expected_step(n):
            return False
    # fn:path(.) through the evaluator: the same strings (document root) or the same strings relative to the root (element root)
    for n, p in zip(nodes, paths):
        fp = T_PATH.evaluate(XPathContext(root, item=n))
        fp = fp[0] if isinstance(fp, list) and len(fp) == 1 else fp
        if {doc}:
            if fp != p:
                return False
        else:
            want = 'Q{{http://www.w3.org/2005/xpath-functions}}root()' + p[len(root.path):]
            if fp != want:
                return False
    return True
'''
import os
_TOP = 'c'
_QUICK = os.environ.get('VERIF_TIER', 'quick') == 'quick'
_ALPHA = '{a,b,c}'
define(_SRC.format(name='document_root', doc=True, frag='', what='document', top=_TOP, alpha=_ALPHA, t3e="'b'" if _QUICK else '_c(t3)', p2e="'a'" if _QUICK else '_c(p2)', prevars='(t0, t1, t2, p1)' if _QUICK else '(t0, t1, t2, t3, p1, p2)'), globals())
define(_SRC.format(name='element_root', doc=False, frag='', what='element, no document node', top=_TOP, alpha=_ALPHA, t3e="'b'" if _QUICK else '_c(t3)', p2e="'a'" if _QUICK else '_c(p2)', prevars='(t0, t1, t2, p1)' if _QUICK else '(t0, t1, t2, t3, p1, p2)'), globals())
define(_SRC.format(name='fragment_root', doc=False, frag=', fragment=True', what='element, fragment=True', top=_TOP, alpha=_ALPHA, t3e="'b'" if _QUICK else '_c(t3)', p2e="'a'" if _QUICK else '_c(p2)', prevars='(t0, t1, t2, p1)' if _QUICK else '(t0, t1, t2, t3, p1, p2)'), globals())


@ob(budget=200, bound='element tags over {a,b,c}: etree_iter_paths yields node.path (in extended form) for every element',
    funcs=['elementpath/etree.py:etree_iter_paths', N + ':extended_path'])
def iter_paths_agree(t0: str, t1: str, t2: str, t3: str) -> bool:
    """
    pre: all(len(t) == 1 and 'a' <= t <= 'c' for t in (t0, t1, t2, t3))
    post: _
    """
    r = _mk(_c(t0), _c(t1), _c(t2), _c(t3), 'a', 'b', False)
    root = build_node_tree(r)
    by_elem = {id(n.value): n for n in _walk(root) if isinstance(n, ElementNode)}
    seen = 0
    for e, p in etree_iter_paths(r):
        n = by_elem.get(id(e))
        if n is None:
            continue
        seen += 1
        if p != '.' + n.path[len(root.path):]:
            return False
    return seen == len(by_elem)


# --- added after round-2 seeded changes: lxml documents with comments / PIs as siblings of the root element -----------------------------

try:
    import lxml.etree as LX
except ImportError:        # pragma: no cover
    LX = None


def _pick(n, top):
    """concrete value of a symbolic count on each path"""
    for k in range(top + 1):
        if n == k:
            return k
    return top


@ob(budget=300, bound='lxml document: 0..2 comments and 0..1 PI before the root element, 0..1 comment after it, 0..2 comments inside the root, '
                      '0..1 comment inside its child (counts chosen by the solver; lxml is C code: the trees themselves are concrete on '
                      'each path): every node path is unique, evaluates as XPath 3.1 to exactly that node, and equals fn:path()',
    funcs=[N + ':CommentNode.path', N + ':ProcessingInstructionNode.path', N + ':ElementNode.path', 'elementpath/tree_builders.py:build_lxml_node_tree',
           'elementpath/xpath30/_xpath30_functions.py:evaluate__path'])
def lxml_document_level_siblings(nb: int, pb: int, na: int, ni: int, nc: int) -> bool:
    """
    pre: 0 <= nb <= 2 and 0 <= pb <= 1 and 0 <= na <= 1 and 0 <= ni <= 2 and 0 <= nc <= 1
    post: _
    """
    if LX is None:
        return True
    nb, pb, na, ni, nc = _pick(nb, 2), _pick(pb, 1), _pick(na, 1), _pick(ni, 2), _pick(nc, 1)
    text = '<!--b-->' * nb + '<?p q?>' * pb + '<r>' + '<!--i-->' * ni + '<x>' + '<!--c-->' * nc + 't</x>' + '<?p z?>' + '</r>' + '<!--a-->' * na
    doc = LX.fromstring(text).getroottree()
    ctx = XPathContext(doc)
    nodes = [n for n in _walk(ctx.root) if not isinstance(n, DocumentNode)]
    if len(nodes) != nb + pb + na + ni + nc + 4:
        return False
    paths = [n.path for n in nodes]
    if len(set(paths)) != len(paths):
        return False
    for n, p in zip(nodes, paths):
        got = L(P31.parse(p).evaluate(XPathContext(ctx.root)))
        if len(got) != 1 or got[0] is not n:
            return False
        fp = T_PATH.evaluate(XPathContext(ctx.root, item=n))
        fp = fp[0] if isinstance(fp, list) and len(fp) == 1 else fp
        if fp != p:
            return False
    return True


# --- added after round-3 seeded changes: same local name in different namespaces; paths of namespace nodes (default namespace too) --------

NSS = ('', 'urn:p', 'urn:q')


def _qn(ns, local):
    return '{%s}%s' % (ns, local) if ns else local


@ob(budget=300, bound='root r with 3 children: two with namespace from {none, urn:p, urn:q} x local name from {a, b} chosen by the solver, the third '
                      'fixed to {urn:p}a; in-scope namespaces with or without a default namespace: every node path (elements and namespace '
                      'nodes) and every etree_iter_paths path is unique and, evaluated as XPath 3.1, selects exactly its node',
    funcs=['elementpath/etree.py:etree_iter_paths', N + ':NamespaceNode.path', N + ':ElementNode.path', 'elementpath/xpath30/_xpath30_functions.py:evaluate__path'])
def namespaced_paths_select_their_node(n1: int, l1: int, n2: int, l2: int, dflt: bool) -> bool:
    """
    pre: 0 <= n1 <= 2 and 0 <= n2 <= 2 and 0 <= l1 <= 1 and 0 <= l2 <= 1
    post: _
    """
    ns1, ns2 = NSS[_pick(n1, 2)], NSS[_pick(n2, 2)]
    la, lb = 'ab'[_pick(l1, 1)], 'ab'[_pick(l2, 1)]
    r = ET.Element('r')
    kids = [ET.SubElement(r, _qn(ns1, la)), ET.SubElement(r, _qn(ns2, lb)), ET.SubElement(r, _qn('urn:p', 'a'))]
    nsmap = {'p': 'urn:p', 'q': 'urn:q'}
    if dflt:
        nsmap[''] = 'urn:d'
    parser = P31.__class__(namespaces=nsmap)
    ctx = XPathContext(ET.ElementTree(r), namespaces=nsmap)
    root = ctx.root
    nodes = [n for n in _walk(root) if not isinstance(n, DocumentNode)]
    relem = [n for n in nodes if getattr(n, 'elem', None) is r][0]
    nodes += list(relem.namespace_nodes)
    paths = [n.path for n in nodes]
    if len(set(paths)) != len(paths):
        return False
    for n, p in zip(nodes, paths):
        got = L(parser.parse(p).evaluate(XPathContext(root, namespaces=nsmap)))
        if len(got) != 1 or got[0] is not n:
            return False
    ip = list(etree_iter_paths(r))
    if len({p for _, p in ip}) != 4:
        return False
    for e, p in ip:
        got = L(parser.parse(p).evaluate(XPathContext(root, item=relem, namespaces=nsmap)))
        if len(got) != 1 or got[0].elem is not e:
            return False
    return True


PI_TARGETS = ('pi', 'name', 'e', 'text', 'if', 'count', 'a', 'node', 'div', 'xml-stylesheet')


@ob(budget=120, bound='lxml element with two processing instructions whose targets come from a table of 10 names that are also function, axis or '
                      'operator names (indices chosen by the solver): the path of each PI is parsable and selects exactly that PI',
    funcs=['elementpath/xpath1/_xpath1_functions.py:nud__pi_kind_test', N + ':ProcessingInstructionNode.path'])
def pi_targets_named_like_functions(i: int, j: int) -> bool:
    """
    pre: 0 <= i <= 9 and 0 <= j <= 9
    post: _
    """
    if LX is None:
        return True
    t1, t2 = PI_TARGETS[_pick(i, 9)], PI_TARGETS[_pick(j, 9)]
    doc = LX.fromstring('<r><?%s x?><b/><?%s y?></r>' % (t1, t2)).getroottree()
    ctx = XPathContext(doc)
    nodes = [n for n in _walk(ctx.root) if isinstance(n, ProcessingInstructionNode)]
    if len(nodes) != 2:
        return False
    for n in nodes:
        got = L(P31.parse(n.path).evaluate(XPathContext(ctx.root)))
        if len(got) != 1 or got[0] is not n:
            return False
    return True


# --- added after round-4 seeded changes: a document node with SEVERAL element children (fn:parse-xml-fragment) ------------------------------

T_FRAG = P31.parse('parse-xml-fragment($t)')


@ob(budget=200, bound='document built by parse-xml-fragment with 2..3 top-level elements whose names come from {item, other} (chosen by the solver), '
                      'text between them and a nested element: every node path is unique and selects exactly its node',
    funcs=[N + ':ElementNode.path (parent is a document node)', 'elementpath/xpath30/_xpath30_functions.py:evaluate__parse_xml_fragment'])
def fragment_document_paths(n0: bool, n1: bool, n2: bool, three: bool) -> bool:
    """
    post: _
    """
    nm = lambda b: 'item' if b else 'other'   # noqa: E731
    text = 'head<%s>1</%s>mid<%s>2<sub/></%s>tail' % (nm(n0), nm(n0), nm(n1), nm(n1)) + ('<%s/>' % nm(n2) if three else '')
    doc = T_FRAG.evaluate(XPathContext(item=1, variables={'t': text}))
    doc = doc[0] if isinstance(doc, list) else doc
    nodes = [n for n in _walk(doc) if not isinstance(n, DocumentNode)]
    paths = [n.path for n in nodes]
    if len(set(paths)) != len(paths) or len(nodes) != (9 if three else 8):
        return False
    for n, p in zip(nodes, paths):
        got = L(P31.parse(p).evaluate(XPathContext(doc)))
        if len(got) != 1 or got[0] is not n:
            return False
        fp = T_PATH.evaluate(XPathContext(doc, item=n))
        fp = fp[0] if isinstance(fp, list) and len(fp) == 1 else fp
        if fp != p:
            return False
    return True
