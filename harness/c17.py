"""C17 — JSON serialisation round-trips (string-escaping kernels claimed; API round trips bug-hunting; XML out)."""
import json
from decimal import Decimal
from harness.common import ob, define, parse_all, ev, L, P31, XPathContext, ElementPathError
from elementpath.helpers import escape_json_string, unescape_json_string

H = 'elementpath/helpers.py'
INFO = dict(
    level='other',
    explanation='Bounded symbolic execution (CrossHair + z3) of the JSON string-escaping kernels used by fn:xml-to-json and '
                'fn:serialize: for every string of length <= 1 over all code points (length 2 as bug-hunting) (control, quote, backslash, solidus, astral) '
                'unescape(escape(s)) = s, and the escaped text between quotes is accepted by an independent decoder (Python json) with '
                'the meaning s. parse-json(serialize(v, json)) on integers, strings and one-level arrays/maps and '
                'xml-to-json(json-to-xml(t)) run as bug-hunting only (json.dumps/loads and the C ElementTree realise their inputs).',
    assumptions=['strings of length <= 1 exhaustively (every code point is its own case), length 2 bug-hunting', 'XML round trip parse-xml(serialize(node)) is outside: expat is a C parser on bytes',
                 'API-level round trips are not part of the claim (measured not exhaustible)'])
T = parse_all({'ser_str': 'parse-json(serialize($s, map{"method": "json"}))', 'ser_arr': 'parse-json(serialize([$a, $s, [$b]], map{"method": "json"}))?*',
               'ser_map': 'parse-json(serialize(map{"k": $a, "j": [$s]}, map{"method": "json"}))?k',
               'x2j': 'xml-to-json(json-to-xml($t))', 'pj': 'parse-json($t)'})


@ob(budget=120, bound='s: any string of length <= 1', funcs=[H + ':escape_json_string', H + ':unescape_json_string'])
def escape_unescape_identity(s: str) -> bool:
    """
    pre: len(s) <= 1
    post: _
    """
    return unescape_json_string(escape_json_string(s)) == s


@ob(budget=200, bound='s: any string of length <= 1 without lone surrogates', funcs=[H + ':escape_json_string'])
def escaped_text_is_json(s: str) -> bool:
    """
    pre: len(s) <= 1 and all(not (chr(0xD800) <= c <= chr(0xDFFF)) for c in s)
    post: _
    """
    return json.loads('"' + escape_json_string(s) + '"') == s


@ob(budget=200, bound='s: any string of length <= 1: no raw control character, quote or lone backslash survives escaping',
    funcs=[H + ':escape_json_string'])
def escaped_text_wellformed(s: str) -> bool:
    """
    pre: len(s) <= 1
    post: _
    """
    e = escape_json_string(s)
    i = 0
    while i < len(e):
        c = e[i]
        if c == '"' or ord(c) < 32:
            return False
        if c == chr(92):
            if i + 1 >= len(e) or e[i + 1] not in '"/bfnrtu' + chr(92):
                return False
            i += 6 if e[i + 1] == 'u' else 2
            continue
        i += 1
    return True


@ob(budget=60, tbudget=900, kind='hunt', bound='s: any string of length <= 2 (not exhausted in 300 s: bug-hunting)', funcs=[H + ':escape_json_string', H + ':unescape_json_string'])
def escape_unescape_identity_len2(s: str) -> bool:
    """
    pre: len(s) <= 2
    post: _
    """
    return unescape_json_string(escape_json_string(s)) == s and json.loads('"' + escape_json_string(s) + '"') == s or any(chr(0xD800) <= c <= chr(0xDFFF) for c in s)


_SPR_S = ('', 'a', '"', chr(92), '/', '\u00e9', 'a"b', chr(92) + '"', '</', ' ', '\u20ac/')
_SPR_A = (-10 ** 6, -1, 0, 1, 7, 10 ** 6)


@ob(budget=200, bound='s from a table of 11 strings (empty, quote, backslash, solidus, non-ASCII, mixtures) and a from {-10^6, -1, 0, 1, 7, 10^6} (indices chosen by the '
                      'solver, values concrete on each path - symbolic text does not pass CrossHair\'s json model): parse-json(serialize(v, json)) = v for a string and '
                      'for a map with a number and an array member',
    funcs=['elementpath/serialization.py:serialize_to_json', 'elementpath/xpath31/_xpath31_functions.py:parse-json'])
def serialize_parse_roundtrip(ai: int, si: int) -> bool:
    """
    pre: 0 <= ai <= 5 and 0 <= si <= 10
    post: _
    """
    a = _SPR_A[[k for k in range(6) if k == ai][0]]
    s = _SPR_S[[k for k in range(11) if k == si][0]]
    return ev(T['ser_str'], s=s) == [s] and ev(T['ser_map'], a=a, s=s) == [float(a)]


@ob(budget=60, tbudget=600, kind='hunt', bound='JSON text "[<n>, \\"<s>\\"]" with n in [-999, 999], s printable ASCII of length <= 2: xml-to-json(json-to-xml(t)) denotes the same value (bug-hunting)',
    funcs=['elementpath/xpath31/_xpath31_functions.py:json-to-xml/xml-to-json'])
def json_xml_roundtrip(n: int, s: str) -> bool:
    """
    pre: -999 <= n <= 999 and len(s) <= 2 and all('a' <= c <= 'z' for c in s)
    post: _
    """
    t = '[%d, "%s", {"k": true}]' % (n, s)
    r = ev(T['x2j'], t=t)
    return json.loads(r[0]) == [n, s, {'k': True}]


# --- added after seeded-change review: one condition per code-point class, so that a wrong treatment of a whole class is found at once --

_CLS = '''
@ob(budget=90, family='escape-by-class', bound='one character in {desc}: escape/unescape identity and independent decoding', funcs=[H + ':escape_json_string', H + ':unescape_json_string'])
def escape_class_{name}(s: str) -> bool:
    """
    pre: len(s) == 1 and {lo} <= ord(s) <= {hi}
    post: _
    """
    e = escape_json_string(s)
    return unescape_json_string(e) == s and json.loads('"' + e + '"') == s
'''
for _name, _lo, _hi, _desc in (('control', 0, 31, 'U+0000..U+001F'), ('ascii', 32, 126, 'U+0020..U+007E'), ('c1', 127, 159, 'U+007F..U+009F'),
                               ('bmp_low', 160, 0xD7FF, 'U+00A0..U+D7FF'), ('bmp_high', 0xE000, 0xFFFF, 'U+E000..U+FFFF'),
                               ('astral', 0x10000, 0x10FFFF, 'U+10000..U+10FFFF')):
    define(_CLS.format(name=_name, lo=_lo, hi=_hi, desc=_desc), globals())


T.update(parse_all({
    'nested_empty': 'deep-equal(parse-json(serialize([[], $a, map{}, [$s, []]], map{"method": "json"})), [[], $a, map{}, [$s, []]])',
    'nested_map': 'deep-equal(parse-json(serialize(map{"k": [$a, [], "x"], "e": map{}}, map{"method": "json"})), map{"k": [$a, [], "x"], "e": map{}})'}))


@ob(budget=60, tbudget=600, kind='hunt', bound='arrays/maps with EMPTY arrays and maps as members, a double and a string leaf: parse-json(serialize(v, json)) deep-equals v (bug-hunting)',
    funcs=['elementpath/serialization.py:serialize_to_json'])
def serialize_nested_empty(k: int, s: str) -> bool:
    """
    pre: -8 <= k <= 8 and len(s) <= 1 and all('a' <= c <= 'z' for c in s)
    post: _
    """
    return ev(T['nested_empty'], a=k / 4, s=s) == [True] and ev(T['nested_map'], a=k / 4) == [True]


# --- added after round-2 seeded changes: the XML character predicate used by parse-json / json-to-xml for the fallback substitution --

from elementpath.helpers import is_xml_codepoint  # noqa: E402


@ob(budget=60, bound='EVERY integer (also negative and beyond 0x10FFFF)', funcs=[H + ':is_xml_codepoint'])
def xml_codepoint_predicate(cp: int) -> bool:
    """
    post: _
    """
    want = cp in (9, 10, 13) or 0x20 <= cp <= 0xD7FF or 0xE000 <= cp <= 0xFFFD or 0x10000 <= cp <= 0x10FFFF
    return is_xml_codepoint(cp) == want


T.update(parse_all({'pj_char': 'parse-json($t)', 'x2j_keys': 'xml-to-json(json-to-xml($t))'}))
EDGE = (0x10FFFF, 0x10000, 0xFFFD, 0xE000, 0xD7FF, 0x20, 0x7F, 0xA0)


@ob(budget=60, tbudget=300, kind='hunt', bound='JSON string with one edge code point (8 boundary characters chosen by the solver): parse-json returns it unchanged; an object with a key containing a literal backslash-n next to the key with a real newline round-trips through json-to-xml / xml-to-json (bug-hunting)',
    funcs=['elementpath/xpath31/_xpath31_functions.py:parse-json/json-to-xml/xml-to-json'])
def json_edge_characters(i: int) -> bool:
    """
    pre: 0 <= i <= 7
    post: _
    """
    ch = chr(EDGE[i])
    if ev(T['pj_char'], t=json.dumps(ch, ensure_ascii=False)) != [ch]:
        return False
    text = json.dumps({'a' + chr(92) + 'nb': 1, 'a' + chr(10) + 'b': 2, chr(92) + 'u0041': 3, 'A': 4})
    back = ev(T['x2j_keys'], t=text)
    return json.loads(back[0]) == json.loads(text)


# --- added after round-3 seeded changes and defects: JSON texts with exponent numbers, nulls and EMPTY arrays/objects as members, with and
#     without a static base URI (json-to-xml then adds xml:base to the root) ------------------------------------------------------------------

import json as _json  # noqa: E402
from elementpath.xpath_tokens import XPathMap as _XMap, XPathArray as _XArr  # noqa: E402
JSON_TEXTS = ('1e20', '1e-10', '100', '1200', '0.5', '-2.50', '{"a":null}', '[null]', '{"a":[]}', '{"a":{}}', '[[]]', '"x"', 'true', 'null',
              '[1,{"b":[null,false]}]', '{"a":[],"b":{"c":[],"d":[[]]}}', '[12345678901234567890]', '{"k":1e5,"l":[1.5e-7]}',
              '{"a\\"b":1}', '{"a<b":"c&d"}', '"it\'s \\"q\\""', '{"":[""]}',
              '1.5e20', '[2.5e-10, -1.25e300, 1.25e100]', '"a\\\\qb"', '{"k\\\\q":[null,true,{"a\\nb":"x\\\\y"}]}', '"\\\\u00"', '"\\\\"',
              '"a/b"', '"a\\/b"', '"\\\\\\""', '"\\"/\\""', '{"a/b":1}', '{"a\\/b":"\\\\\\/"}', '"\\u00e9\\n\\t/"')
P31B = P31.__class__(base_uri='http://example.com/base/')
TB_ = {False: parse_all({'x2j_esc': 'xml-to-json(json-to-xml($t, map{"escape": true()}))', 'x2j': 'xml-to-json(json-to-xml($t))', 'pj': 'parse-json($t)', 'ser': 'serialize(parse-json($t), map{"method": "json"})'}),
       True: parse_all({'x2j_esc': 'xml-to-json(json-to-xml($t, map{"escape": true()}))', 'x2j': 'xml-to-json(json-to-xml($t))', 'pj': 'parse-json($t)', 'ser': 'serialize(parse-json($t), map{"method": "json"})'}, parser=P31B)}

T_X2J_OPTS = tuple(P31.parse('xml-to-json(json-to-xml($t), %s)' % o) for o in ('map{}', 'map{"indent": true()}', 'map{"indent": false()}'))


def _py(v):
    """XDM value -> Python JSON value"""
    if isinstance(v, list):
        if len(v) == 0:
            return None
        if len(v) == 1:
            return _py(v[0])
        return ('sequence', [_py(x) for x in v])
    if isinstance(v, _XMap):
        return {str(k): _py(x) for k, x in v.items()}
    if isinstance(v, _XArr):
        return [_py(x) for x in v.items()]
    if isinstance(v, bool) or v is None or isinstance(v, str):
        return v
    return float(v)


def _norm(j):
    if isinstance(j, dict):
        return {k: _norm(x) for k, x in j.items()}
    if isinstance(j, list):
        return [_norm(x) for x in j]
    if isinstance(j, (int, float)) and not isinstance(j, bool):
        return float(j)
    return j


@ob(budget=200, bound='JSON text from a table of 35 (exponent numbers, nulls, empty arrays/objects as members, nested shapes, solidus and backslash-quote strings; index chosen by the '
                      'solver) x parser with / without a static base URI: xml-to-json(json-to-xml(t)), parse-json(t) and '
                      'serialize(parse-json(t), json) and xml-to-json with an options map (empty, indent true / false) all denote the value an independent JSON parser reads from t',
    funcs=['elementpath/xpath31/_xpath31_functions.py:evaluate__xml_to_json', 'elementpath/xpath31/_xpath31_functions.py:evaluate__json_to_xml',
           'elementpath/xpath31/_xpath31_functions.py:evaluate__parse_json', 'elementpath/serialization.py:serialize_to_json'])
def json_texts_roundtrip(ti: int, base: bool) -> bool:
    """
    pre: 0 <= ti <= 34
    post: _
    """
    t = JSON_TEXTS[[k for k in range(35) if k == ti][0]]
    toks = TB_[True if base else False]
    want = _norm(_json.loads(t))
    for key in ('x2j', 'x2j_esc'):
        back = ev(toks[key], t=t)
        if len(back) != 1 or _norm(_json.loads(back[0])) != want:
            return False
    if _norm(_py(ev(toks['pj'], t=t))) != want:
        return False
    ser = ev(toks['ser'], t=t)
    if len(ser) != 1 or _norm(_json.loads(ser[0])) != want:
        return False
    for opt in T_X2J_OPTS:          # (added with the options-map repair: an options map, empty or with indent, changes nothing in the value)
        back = ev(opt, t=t)
        if len(back) != 1 or _norm(_json.loads(back[0])) != want:
            return False
    return True


# --- XML round trip with an XML declaration and apostrophes / quotes in text and attribute values (concrete documents; expat is C code) ----

import xml.etree.ElementTree as _CET17  # noqa: E402
XML_DOCS = ('<a>it\'s<?pi data?></a>', '<a x="it\'s"><b>\'</b><?p q?>t</a>', '<a k="it\'s">it\'s</a>', "<a k='say &quot;hi&quot;'>x</a>", '<a>x<b k="1">y</b>z</a>', "<a><b>'</b><c k=\"'\"/></a>", '<a/>')
T_XML17 = parse_all({'rt': 'deep-equal(parse-xml(serialize(., map{"omit-xml-declaration": $omit})), .)', 'txt': 'serialize(., map{"omit-xml-declaration": $omit})'})


def _LXDOC(text):
    """lxml keeps processing instructions (xml.etree drops them); fall back to ElementTree when lxml is missing"""
    try:
        import lxml.etree as _lx
        return _lx.fromstring(text).getroottree()
    except ImportError:      # pragma: no cover
        return _CET17.ElementTree(_CET17.XML(text))


@ob(budget=60, tbudget=300, kind='hunt', bound='7 documents with apostrophes and quotes in text and attribute values, two with a processing instruction after them (index chosen by the solver) x '
                                   'omit-xml-declaration true/false: parse-xml(serialize(doc)) is deep-equal to doc (expat is C code: bug-hunting)',
    funcs=['elementpath/serialization.py:serialize_to_xml'])
def xml_roundtrip_with_declaration(i: int, omit: bool) -> bool:
    """
    pre: 0 <= i <= 6
    post: _
    """
    doc = _LXDOC(XML_DOCS[[k for k in range(7) if k == i][0]])
    from harness.common import XPathContext as _C, L as _L
    r = _L(T_XML17['rt'].evaluate(_C(doc, variables={'omit': True if omit else False})))
    return r == [True]


T_XML17.update(parse_all({'rt_elem': 'for $e in //* return deep-equal(parse-xml(serialize($e))/*, $e)', 'twins': 'deep-equal(/*/b[1], /*/b[2])',
                          'not_twins': 'deep-equal(/*/c[1], /*/c[2])'}))
XML_TAIL_DOCS = ('<a><b>x</b>tail<b>x</b><c><b>x</b>t1</c><c><b>x</b>t2</c></a>', '<a>h<b k="1">x</b>\n  <b k="1">x</b>z<c>1</c><c>2</c></a>')


@ob(budget=60, tbudget=300, kind='hunt', bound='2 documents whose elements have tails (index chosen by the solver): every ELEMENT node round-trips through '
                                   'serialize / parse-xml under deep-equal, equal siblings with different tails are deep-equal, different ones are not '
                                   '(expat is C code: bug-hunting)',
    funcs=['elementpath/compare.py:deep_equal', 'elementpath/serialization.py:serialize_to_xml'])
def element_roundtrip_ignores_own_tail(i: int) -> bool:
    """
    pre: 0 <= i <= 1
    post: _
    """
    doc = _CET17.ElementTree(_CET17.XML(XML_TAIL_DOCS[1 if i == 1 else 0]))
    from harness.common import XPathContext as _C, L as _L
    r = _L(T_XML17['rt_elem'].evaluate(_C(doc, variables={'omit': True})))
    return len(r) >= 5 and all(x is True for x in r) and _L(T_XML17['twins'].evaluate(_C(doc))) == [True] and _L(T_XML17['not_twins'].evaluate(_C(doc))) == [False]


try:
    import lxml.etree as _LX17
except ImportError:      # pragma: no cover
    _LX17 = None
T_XML17.update(parse_all({'rt_doc': 'deep-equal(parse-xml(serialize(/)), /)', 'n_doc': 'count(parse-xml(serialize(/))/node())',
                          'ser_each': 'for $e in //* return serialize($e)'}))


@ob(budget=60, tbudget=300, kind='hunt', bound='lxml document with 0..2 comments and 0..1 PI before and 0..1 comment after the root element (counts chosen by '
                                   'the solver): parse-xml(serialize(/)) is deep-equal to / and has as many top-level nodes; an element whose tail needs '
                                   'escaping is serialized without it (expat / lxml are C code: bug-hunting)',
    funcs=['elementpath/serialization.py:serialize_to_xml'])
def document_with_siblings_roundtrip(nb: int, pb: int, na: int) -> bool:
    """
    pre: 0 <= nb <= 2 and 0 <= pb <= 1 and 0 <= na <= 1
    post: _
    """
    if _LX17 is None:
        return True
    nb = 0 if nb == 0 else 1 if nb == 1 else 2
    pb = 1 if pb == 1 else 0
    na = 1 if na == 1 else 0
    from harness.common import XPathContext as _C, L as _L
    doc = _LX17.fromstring('<!--b-->' * nb + '<?p q?>' * pb + '<r>h<x>t</x>l&gt;&amp;<y/>tail</r>' + '<!--a-->' * na).getroottree()
    if _L(T_XML17['rt_doc'].evaluate(_C(doc))) != [True] or _L(T_XML17['n_doc'].evaluate(_C(doc))) != [nb + pb + na + 1]:
        return False
    each = _L(T_XML17['ser_each'].evaluate(_C(doc)))
    return each[1:] == ['<x>t</x>', '<y/>'] or each[1:] == ['<x>t</x>', '<y />']


# --- added after the round-4 baseline reports: serialization parameters and malformed JSON-XML never escape as bare Python exceptions --------

T_SER17 = parse_all({'enc': 'serialize($v, map{"method": $m, "encoding": $e})', 'plain': 'serialize($v, map{"method": $m})',
                     'bool': 'xml-to-json(parse-xml($t))', 'frag': 'serialize(parse-xml-fragment($t))', 'fragtext': 'serialize(parse-xml-fragment($t)//text())'})
ENCODINGS = ('utf-8', 'UTF-16', 'ascii', 'US-ASCII', 'latin-1', 'cp037', 'utf-32', 'nope', '', 'x-unknown-7')
_KNOWN_ENC = (True, True, True, True, True, True, True, False, False, False)
SER_VALUES = ('é', 'a/b', '€"x', 'plain')
BOOL_TEXTS = ('true', 'false', '1', '0', ' true ', 'yes', '', 'TRUE', '2', 'tru e')
_BOOL_OK = ('true', 'false', 'true', 'false', 'true', None, None, None, None, None)
FRAGS = ('a<b/>c', 'x', '<b>t</b>tail', 'a<b>c</b>d', '<b/>')


@ob(budget=240, bound='serialize(v, map{method, encoding}) for v from 4 strings, method json / text, encoding from a table of 10 names (7 known to Python, 3 unknown); '
                      'xml-to-json of a boolean element with a text from a table of 10; serialize of 5 XML fragments with top-level text (all indices chosen by the '
                      'solver): a known encoding gives the same string as no encoding parameter (the result is a string, no encoding phase), an unknown one '
                      'SEPM0016; an invalid boolean FOJS0006; fragments serialize to their text; never an exception that is not an ElementPathError',
    funcs=['elementpath/serialization.py:get_serialization_params', 'elementpath/serialization.py:serialize_to_json', 'elementpath/serialization.py:serialize_to_xml',
           'elementpath/xpath31/_xpath31_functions.py:xml-to-json'])
def serialization_parameters_and_errors(what: int, i: int, j: int, js: bool) -> bool:
    """
    pre: 0 <= what <= 2 and 0 <= i <= 9 and 0 <= j <= 3
    post: _
    """
    from harness.common import err_code
    i = [k for k in range(10) if k == i][0]
    if what == 0:
        v, m = SER_VALUES[[k for k in range(4) if k == j][0]], 'json' if js else 'text'
        plain = ev(T_SER17['plain'], v=v, m=m)
        try:
            r = ev(T_SER17['enc'], v=v, m=m, e=ENCODINGS[i])
        except ElementPathError as e:
            return not _KNOWN_ENC[i] and err_code(e) == 'SEPM0016'
        return _KNOWN_ENC[i] and r == plain
    if what == 1:
        t = '<boolean xmlns="http://www.w3.org/2005/xpath-functions">%s</boolean>' % BOOL_TEXTS[i]
        try:
            r = ev(T_SER17['bool'], t=t)
        except ElementPathError as e:
            return _BOOL_OK[i] is None and err_code(e) == 'FOJS0006'
        return r == [_BOOL_OK[i]]
    t = FRAGS[i % 5]
    r = ev(T_SER17['frag'], t=t)
    r2 = ev(T_SER17['fragtext'], t=t)
    want = {'a<b/>c': ('a<b />c', 'ac'), 'x': ('x', 'x'), '<b>t</b>tail': ('<b>t</b>tail', 'ttail'), 'a<b>c</b>d': ('a<b>c</b>d', 'acd'), '<b/>': ('<b />', '')}[t]
    return r == [want[0]] and r2 == [want[1]]


from elementpath.xpath31 import XPath31Parser as _P31c17  # noqa: E402
from harness.common import pyet as _pyet17  # noqa: E402
_ET17 = _pyet17()
_NS_TABLE = ({'ns1': 'u'}, {'ns0': 'u', 'p': 'v'}, {'p': 'u'}, {'ns12': 'w', 'q': 'u'})
T_NS17 = tuple(_P31c17(namespaces=ns).parse('serialize(.)') for ns in _NS_TABLE)
T_NS17_CTX = P31.parse('serialize(.)')


@ob(budget=120, bound='serialize(.) on <a xmlns="u"><b/></a> with the in-scope namespaces of the parser or of the context from a table of 4 (two use prefixes of the '
                      'form ns<digits>, which ElementTree reserves; index chosen by the solver): a string that names both elements, never a bare ValueError',
    funcs=['elementpath/xpath30/_xpath30_functions.py:evaluate__serialize_function', 'xml.etree.ElementTree.register_namespace'])
def serialize_with_reserved_prefixes(i: int, in_context: bool) -> bool:
    """
    pre: 0 <= i <= 3
    post: _
    """
    i = [k for k in range(4) if k == i][0]
    root = _ET17.XML('<a xmlns="u"><b/></a>')
    if in_context:
        r = T_NS17_CTX.evaluate(XPathContext(root, namespaces=_NS_TABLE[i]))
    else:
        r = T_NS17[i].evaluate(XPathContext(root))
    r = r[0] if isinstance(r, list) else r
    return isinstance(r, str) and r.count('a') >= 1 and ('b />' in r or 'b/>' in r) and '"u"' in r


# --- added after the round-4 baseline reports: the options of parse-json / json-to-xml do not depend on their order in the map ---------------

_OPT_ORDER = ("map{'fallback': function($s) {'?'}, 'escape': true()}", "map{'escape': true(), 'fallback': function($s) {'?'}}",
              "map{'escape': false(), 'fallback': function($s) {'?'}}", "map{'fallback': function($s) {'?'}, 'escape': false()}", "map{'fallback': function($s) {'?'}}", "map{}")
T_OPT17 = {f: tuple(P31.parse("%s($t, %s)" % (f, o)) for o in _OPT_ORDER) for f in ('parse-json', 'json-to-xml')}
T_OPT17_TEXT = P31.parse('string($d)')


@ob(budget=120, bound='parse-json / json-to-xml of the text "\\u0000x" with 6 option maps (fallback and escape in both orders, escape false in both orders, fallback alone, '
                      'none; function and index chosen by the solver): escape=true with a fallback is FOJS0005 in both orders; a fallback function replaces the '
                      'character; without options the replacement is the one character U+FFFD',
    funcs=['elementpath/xpath31/_xpath31_functions.py:evaluate__parse_json', 'elementpath/xpath31/_xpath31_functions.py:evaluate__json_to_xml'])
def json_option_order_independent(x2: bool, oi: int) -> bool:
    """
    pre: 0 <= oi <= 5
    post: _
    """
    from harness.common import err_code
    oi = [k for k in range(6) if k == oi][0]
    tok = T_OPT17['json-to-xml' if x2 else 'parse-json'][oi]
    try:
        r = ev(tok, t='"\\u0000x"')
    except ElementPathError as e:
        return oi <= 1 and err_code(e) == 'FOJS0005'
    if oi <= 1 or len(r) != 1:
        return False
    text = ev(T_OPT17_TEXT, d=r[0])[0] if x2 else r[0]
    return text == ('�x' if oi == 5 else '?x')


_NONJSON = ('NaN', 'Infinity', '-Infinity', '[NaN]', '{"a":Infinity}', '[1,-Infinity]')
T_NONJSON = {f: tuple(P31.parse("%s($t%s)" % (f, o)) for o in ('', ", map{'liberal': false()}", ", map{'liberal': true()}")) for f in ('parse-json', 'json-to-xml')}


@ob(budget=120, bound='parse-json / json-to-xml of 6 texts that use NaN / Infinity (not JSON: RFC 7159) without options, with liberal false and with liberal true '
                      '(function, text and option chosen by the solver): FOJS0001 unless liberal is true, where the outcome is a value or an ElementPathError',
    funcs=['elementpath/xpath31/_xpath31_functions.py:evaluate__parse_json', 'elementpath/xpath31/_xpath31_functions.py:evaluate__json_to_xml'])
def non_json_constants_rejected(x2: bool, ti: int, oi: int) -> bool:
    """
    pre: 0 <= ti <= 5 and 0 <= oi <= 2
    post: _
    """
    from harness.common import err_code
    t = _NONJSON[[k for k in range(6) if k == ti][0]]
    oi = [k for k in range(3) if k == oi][0]
    try:
        ev(T_NONJSON['json-to-xml' if x2 else 'parse-json'][oi], t=t)
    except ElementPathError as e:
        return oi == 2 or err_code(e) == 'FOJS0001'
    return oi == 2
