"""C09 — string functions agree with their F&O definitions (DESIGN §4 C09)."""
import z3
from harness.common import ob, define, parse_all, ev, ElementPathError, err_code, XPathContext, P1, P2, P31
from harness.e2util import Queries, mval
from verif_lib import py2smt as PS

F1 = 'elementpath/xpath1/_xpath1_functions.py'
F2 = 'elementpath/xpath2/_xpath2_functions.py'
INFO = dict(
    level='other',
    explanation='E1: string functions are executed symbolically through token.evaluate on symbolic Unicode strings (code points are '
                'solver integers, so astral characters are inside the domain) of length <= 3 and compared with the F&O definitions '
                'written over code-point lists. E2: the index arithmetic of fn:substring (and fn:subsequence) is translated from the '
                'current source with contract stubs for round_number/quantize, slicing and get_argument, and z3 decides for ALL '
                'rational start/length arguments, all string lengths and all positions that position p is returned iff '
                'round(start) <= p < round(start) + round(length).',
    assumptions=['strings of length <= 3 (E1); XML characters only where F&O makes other code points an error',
                 'E2 stubs: Decimal.quantize contract, s[i:j] = index interval for non-negative i, j (non-negativity is proved as a side '
                 'obligation), math.isnan/isinf = False (finite arguments; INF/NaN branches are constant cases)',
                 'outside: URI escaping, normalize-unicode, collations other than code point and HTML ASCII case-insensitive, libxml2 agreement'])
T = parse_all({
    'sub3': 'substring($s, $a, $b)', 'sub2': 'substring($s, $a)', 'len': 'string-length($s)', 'cps': 'string-to-codepoints($s)',
    'rt': 'codepoints-to-string(string-to-codepoints($s))', 'c2s': 'codepoints-to-string($c)',
    'contains': 'contains($s, $t)', 'before': 'substring-before($s, $t)', 'after': 'substring-after($s, $t)',
    'law': 'if (contains($s, $t)) then concat(substring-before($s, $t), $t, substring-after($s, $t)) = $s else true()',
    'starts': 'starts-with($s, $t)', 'ends': 'ends-with($s, $t)', 'concat': 'concat($s, $t, $s)', 'translate': 'translate($s, $m, $r)',
    'norm': 'normalize-space($s)', 'upper': 'upper-case($s)', 'lower': 'lower-case($s)', 'compare': 'compare($s, $t)',
    'cpeq': 'codepoint-equal($s, $t)', 'sj': 'string-join(($s, $t), $u)',
})
T1 = parse_all({'sub3': 'substring($s, $a, $b)', 'contains': 'contains($s, $t)', 'before': 'substring-before($s, $t)',
                'after': 'substring-after($s, $t)', 'len': 'string-length($s)', 'starts': 'starts-with($s, $t)',
                'norm': 'normalize-space($s)', 'translate': 'translate($s, $m, $r)'}, parser=P1)
XMLCH = "all(c in (chr(9), chr(10), chr(13)) or ' ' <= c <= chr(0xD7FF) or chr(0xE000) <= c <= chr(0xFFFD) or c >= chr(0x10000) for c in %s)"


@ob(budget=150, bound='s: any string of length <= 3; integer start/length in [-3, 6] (XPath 3.1 and 1.0 parsers)',
    funcs=[F1 + ':evaluate__substring'])
def substring_int(s: str, a: int, b: int) -> bool:
    """
    pre: len(s) <= 3 and -3 <= a <= 6 and -3 <= b <= 6
    post: _
    """
    want = ''.join(ch for p, ch in enumerate(s, 1) if a <= p < a + b)
    return ev(T['sub3'], s=s, a=a, b=b) == [want] and ev(T1['sub3'], s=s, a=a, b=b) == [want] \
        and ev(T['sub2'], s=s, a=a) == [''.join(ch for p, ch in enumerate(s, 1) if a <= p)]


@ob(budget=60, tbudget=600, kind='hunt', bound='fixed string "abcde"; start, length exact quarter doubles k/4, |k| <= 28 (doubles: bug-hunting; decided by e2_substring)',
    funcs=[F1 + ':evaluate__substring'])
def substring_quarters(ka: int, kb: int) -> bool:
    """
    pre: -8 <= ka <= 28 and -8 <= kb <= 28
    post: _
    """
    ra, rb = (ka + 2) // 4, (kb + 2) // 4
    return ev(T['sub3'], s='abcde', a=ka / 4, b=kb / 4) == [''.join(ch for p, ch in enumerate('abcde', 1) if ra <= p < ra + rb)]


@ob(budget=200, bound='s: any string of length <= 2 of XML characters', funcs=[F2 + ':string-to-codepoints', F2 + ':codepoints-to-string', F1 + ':string-length'])
def codepoints_roundtrip(s: str) -> bool:
    """
    pre: len(s) <= 2 and all(c in (chr(9), chr(10), chr(13)) or ' ' <= c <= chr(0xD7FF) or chr(0xE000) <= c <= chr(0xFFFD) or c >= chr(0x10000) for c in s)
    post: _
    """
    return ev(T['rt'], s=s) == [s] and ev(T['len'], s=s) == [len(s)] and ev(T['cps'], s=s) == [ord(c) for c in s] \
        and ev(T1['len'], s=s) == [len(s)]


@ob(budget=200, bound='s: string of length <= 3, t: string of length <= 2', funcs=[F1 + ':contains', F1 + ':substring-before/after', F1 + ':starts-with', F2 + ':ends-with'])
def contains_before_after(s: str, t: str) -> bool:
    """
    pre: len(s) <= 3 and len(t) <= 2
    post: _
    """
    i = s.find(t)
    if ev(T['contains'], s=s, t=t) != [i >= 0] or ev(T['law'], s=s, t=t) != [True]:
        return False
    if ev(T['before'], s=s, t=t) != [s[:i] if i >= 0 else ''] or ev(T['after'], s=s, t=t) != [s[i + len(t):] if i >= 0 else '']:
        return False
    return ev(T['starts'], s=s, t=t) == [s[:len(t)] == t] and ev(T['ends'], s=s, t=t) == [len(t) <= len(s) and s[len(s) - len(t):] == t]


@ob(budget=200, bound='XPath 1.0 parser: s: string of length <= 3, t: string of length <= 2', funcs=[F1 + ':contains', F1 + ':substring-before/after'])
def contains_before_after_xpath1(s: str, t: str) -> bool:
    """
    pre: len(s) <= 3 and len(t) <= 2
    post: _
    """
    i = s.find(t)
    return ev(T1['contains'], s=s, t=t) == [i >= 0] and ev(T1['before'], s=s, t=t) == [s[:i] if i >= 0 else ''] \
        and ev(T1['after'], s=s, t=t) == [s[i + len(t):] if i >= 0 else ''] and ev(T1['starts'], s=s, t=t) == [s[:len(t)] == t]


@ob(budget=120, bound='s, t: strings of length <= 2; u: string of length <= 1', funcs=['concat', F2 + ':string-join', F2 + ':compare', F2 + ':codepoint-equal'])
def concat_compare(s: str, t: str, u: str) -> bool:
    """
    pre: len(s) <= 2 and len(t) <= 2 and len(u) <= 1
    post: _
    """
    return ev(T['concat'], s=s, t=t) == [s + t + s] and ev(T['sj'], s=s, t=t, u=u) == [s + u + t] \
        and ev(T['compare'], s=s, t=t) == [(s > t) - (s < t)] and ev(T['cpeq'], s=s, t=t) == [s == t]


@ob(budget=200, bound='s: string of length <= 3 over XML white space, NBSP and letters', funcs=[F1 + ':normalize-space'])
def normalize_space(s: str) -> bool:
    """
    pre: len(s) <= 3 and all(c in ' ab' + chr(9) + chr(10) + chr(13) + chr(0xA0) + chr(0x2003) + chr(11) for c in s)
    post: _
    """
    out = []
    cur = ''
    for c in s:
        if c in ' ' + chr(9) + chr(10) + chr(13):
            if cur:
                out.append(cur)
            cur = ''
        else:
            cur += c
    if cur:
        out.append(cur)
    return ev(T['norm'], s=s) == [' '.join(out)] and ev(T1['norm'], s=s) == [' '.join(out)]


@ob(budget=200, bound='s: string of length <= 2 over {a,b}; map string: length <= 2 over {a,b} (so a repeated map character is included); replacement: length <= 2 over {x,y}',
    funcs=[F1 + ':translate'])
def translate_spec(s: str, m: str, r: str) -> bool:
    """
    pre: len(s) <= 2 and len(m) <= 2 and len(r) <= 2 and all('a' <= c <= 'b' for c in s + m) and all('x' <= c <= 'y' for c in r)
    post: _
    """
    out = ''
    for c in s:
        i = m.find(c)
        if i < 0:
            out += c
        elif i < len(r):
            out += r[i]
    return ev(T['translate'], s=s, m=m, r=r) == [out] and ev(T1['translate'], s=s, m=m, r=r) == [out]


@ob(budget=60, tbudget=600, kind='hunt', bound='s: string of length <= 3 over a..d; map, replacement: strings of length <= 3 over a..d (bug-hunting)', funcs=[F1 + ':translate'])
def translate_spec_wide(s: str, m: str, r: str) -> bool:
    """
    pre: len(s) <= 3 and len(m) <= 3 and len(r) <= 3 and all('a' <= c <= 'd' for c in s + m + r)
    post: _
    """
    out = ''
    for c in s:
        i = m.find(c)
        if i < 0:
            out += c
        elif i < len(r):
            out += r[i]
    return ev(T['translate'], s=s, m=m, r=r) == [out]


@ob(budget=200, bound='s: string of length <= 2 of ASCII and Latin-1 letters', funcs=[F2 + ':upper-case', F2 + ':lower-case'])
def case_mapping(s: str) -> bool:
    """
    pre: len(s) <= 2 and all(c < chr(0x100) for c in s)
    post: _
    """
    return ev(T['upper'], s=s) == [s.upper()] and ev(T['lower'], s=s) == [s.lower()]


# ---------------------------------------------------------------------------------------------------
# E2: substring index arithmetic for all rational arguments

def _substring_e2(parser, nargs):
    q = Queries(timeout_s=60, diff_binary=False)
    cls = parser.symbol_table['substring']
    pyfn = getattr(cls.evaluate, '__func__', cls.evaluate)
    a, b = z3.Real('a'), z3.Real('b')
    n, p = z3.Int('n'), z3.Int('p')
    item = PS.AbsStr(n)

    def get_argument(fn, context, index=0, default=None, cls=None, required=False):
        return {0: item, 1: PS.Sym(a, float), 2: PS.Sym(b, float)}[index]
    me = PS.Obj('self', dict(context=None, parser=PS.Obj('parser', dict(version='3.1'))), length=nargs)
    try:
        r = PS.translate(pyfn, [me, None], stubs={'self.get_argument': get_argument})
    except PS.Unsupported as e:
        return q.result(not_encodable=str(e))
    fn = r['fn']
    val = r['val']
    if not isinstance(val, PS.StrSlice) and val != '':
        return q.result(not_encodable='unexpected result shape %r' % (val,))
    # returned slice: indices lo <= k < hi of the abstract string (or '' = empty)
    lo, hi = (val.lo, val.hi) if isinstance(val, PS.StrSlice) else (0, 0)
    base = list(r['side']) + [n >= 0]
    ra = fn.floor(a + z3.RealVal('1/2'))
    k = p - 1
    got = z3.And(lo <= k, k < hi, k < n, k >= 0)
    if nargs == 3:
        rb = fn.floor(b + z3.RealVal('1/2'))
        want = z3.And(1 <= p, p <= n, ra <= p, p < ra + rb)
    else:
        want = z3.And(1 <= p, p <= n, ra <= p)
    base += fn.side[len(r['side']):] if len(fn.side) > len(r['side']) else []
    base = list(fn.side) + [n >= 0]
    cex = []
    res, m0 = q.check('reach', base + [got], expect='sat')
    q.sat = []
    if m0 is not None:
        q.samples.append('a=%s b=%s n=%s p=%s' % (mval(m0, a), mval(m0, b), mval(m0, n), mval(m0, p)))
    res, m = q.check('never raises', base + [r['raised']])
    if r['nonneg']:
        res, m = q.check('slice indices are non-negative (stub precondition)', base + [z3.Or(*[x < 0 for x in r['nonneg'] if not isinstance(x, int)] + [False])])
    res, m = q.check('position p returned iff round(a) <= p < round(a)+round(b)', base + [got != want])
    if res == 'sat':
        res2, m2 = q.check('small witness', base + [got != want, a >= -8, a <= 8, b >= -8, b <= 8, n <= 12], expect='sat')
        q.sat = [x for x in q.sat if x[0] != 'small witness']
        if m2 is not None:
            m = m2
        av, bv, nv = mval(m, a), mval(m, b), mval(m, n)
        cex.append(dict(call='replay_substring(%r, %r, %d, %d)' % (str(av), str(bv) if nargs == 3 else None, min(nv, 40), nargs),
                        message='substring index arithmetic differs from F&O at a=%s b=%s n=%s p=%s' % (av, bv, nv, mval(m, p))))
    return q.result(cex, detail=dict(stubs=sorted(set(r['notes']))))


def replay_substring(a_s, b_s, n, nargs):
    from fractions import Fraction
    import math as _m
    a = Fraction(a_s)
    s = ''.join(chr(ord('a') + i % 26) for i in range(n))
    ra = _m.floor(a + Fraction(1, 2))
    fa = a.numerator / a.denominator
    if Fraction(fa) != a:
        return True
    if nargs == 3:
        b = Fraction(b_s)
        fb = b.numerator / b.denominator
        if Fraction(fb) != b:
            return True
        rb = _m.floor(b + Fraction(1, 2))
        want = ''.join(ch for p, ch in enumerate(s, 1) if ra <= p < ra + rb)
        return ev(T['sub3'], s=s, a=fa, b=fb) == [want] and ev(T1['sub3'], s=s, a=fa, b=fb) == [want]
    want = ''.join(ch for p, ch in enumerate(s, 1) if ra <= p)
    return ev(T['sub2'], s=s, a=fa) == [want]


@ob(engine='z3', budget=120, bound='all rational start and length, all string lengths n >= 0, all positions p (three-argument form)',
    funcs=[F1 + ':evaluate__substring', 'elementpath/helpers.py:round_number'])
def e2_substring3(ctx):
    return _substring_e2(P31, 3)


@ob(engine='z3', budget=120, bound='all rational start, all string lengths n >= 0, all positions p (two-argument form)',
    funcs=[F1 + ':evaluate__substring', 'elementpath/helpers.py:round_number'])
def e2_substring2(ctx):
    return _substring_e2(P31, 2)


@ob(budget=120, bound='map string with a REPEATED character c (c, d over {a,b}; shapes cc, cdc, ccd chosen by the solver), replacement xyz prefix: the first occurrence decides',
    funcs=[F1 + ':translate'])
def translate_repeated_map_char(c: str, d: str, shape: int, rl: int) -> bool:
    """
    pre: len(c) == 1 and len(d) == 1 and 'a' <= c <= 'b' and 'a' <= d <= 'b' and c != d and 0 <= shape <= 2 and 0 <= rl <= 3
    post: _
    """
    # the solver case-splits the two letters, so that str.maketrans (which CrossHair cannot follow on symbolic strings: every path
    # aborts) receives concrete strings
    c = 'a' if c == 'a' else 'b'
    d = 'a' if d == 'a' else 'b'
    m = (c + c, c + d + c, c + c + d)[shape]
    r = 'xyz'[:rl]
    s = c + d + c
    out = ''
    for ch in s:
        i = m.find(ch)
        if i < 0:
            out += ch
        elif i < len(r):
            out += r[i]
    return ev(T['translate'], s=s, m=m, r=r) == [out] and ev(T1['translate'], s=s, m=m, r=r) == [out]


# --- added after round-4 seeded changes: zero-argument string-length() on a context item that is not a string -------------------------------

T.update(parse_all({'strlen_ctx': '($a, $b) ! string-length()', 'strlen_item': 'string-length()', 'strlen_mix': '($a, $s, $b) ! (string-length(), string-length(string(.)))'}))


@ob(budget=120, bound='a, b: integers in [-999, 999], s: string of length <= 2: string-length() without argument takes the string value of the context '
                      'item (integer or string), in a simple map and as the context item of the evaluation',
    funcs=['elementpath/xpath1/_xpath1_functions.py:evaluate__string_length'])
def string_length_of_context_item(a: int, b: int, s: str) -> bool:
    """
    pre: -999 <= a <= 999 and -999 <= b <= 999 and len(s) <= 2
    post: _
    """
    la, lb = len(str(a)), len(str(b))
    if ev(T['strlen_ctx'], a=a, b=b) != [la, lb]:
        return False
    r = T['strlen_item'].evaluate(XPathContext(item=a))
    if (r[0] if isinstance(r, list) else r) != la:
        return False
    return ev(T['strlen_mix'], a=a, b=b, s=s) == [la, la, len(s), len(s), lb, lb]


T.update(parse_all({'sub_inf2': 'substring($s, $x)', 'sub_inf3': 'substring($s, $x, $y)'}))
_INF = float('inf')
_SPECIAL = (_INF, -_INF, float('nan'))


_ARGV = (_INF, -_INF, float('nan'), -1.0, 0.0, 2.0, 5.0)
_SUBJ = ('', 'a', 'abc', '12345')


@ob(budget=200, bound='s from 4 strings; start and length from {+INF, -INF, NaN, -1, 0, 2, 5} with at least one of them not finite (indices chosen by the '
                      'solver, values concrete on each path): substring follows the F&O definition with IEEE comparisons (from -INF without '
                      'length: the whole string; -INF + INF is NaN: empty)',
    funcs=['elementpath/xpath1/_xpath1_functions.py:evaluate__substring'])
def substring_infinite_arguments(si: int, xi: int, yi: int) -> bool:
    """
    pre: 0 <= si <= 3 and 0 <= xi <= 6 and 0 <= yi <= 6 and (xi <= 2 or yi <= 2)
    post: _
    """
    s = _SUBJ[[k for k in range(4) if k == si][0]]
    x = _ARGV[[k for k in range(7) if k == xi][0]]
    y = _ARGV[[k for k in range(7) if k == yi][0]]
    want2 = ''.join(c for p, c in enumerate(s, 1) if x <= p)
    end = x + y
    want3 = ''.join(c for p, c in enumerate(s, 1) if x <= p and p < end)
    return ev(T['sub_inf2'], s=s, x=x) == [want2] and ev(T['sub_inf3'], s=s, x=x, y=y) == [want3]


# --- round 5: the HTML ASCII case-insensitive collation (F&O 5.3.6: only A-Z are folded) in the collation-aware string functions: characters
#     whose full case folding changes the length of the string (U+00DF -> 'ss', U+0130 -> 'i' + U+0307) or folds a non-ASCII letter to an ASCII
#     one (U+212A KELVIN SIGN -> 'k', U+017F -> 's') must be left alone, and the index found must be valid for the ORIGINAL string ---------------

_HA = 'http://www.w3.org/2005/xpath-functions/collation/html-ascii-case-insensitive'
T.update(parse_all({'ha_all': '(contains($s, $t, "%s"), starts-with($s, $t, "%s"), ends-with($s, $t, "%s"), substring-before($s, $t, "%s"), '
                              'substring-after($s, $t, "%s"))' % ((_HA,) * 5)}))
_HA_CHARS = ('a', 'A', chr(0xDF), 'x', chr(0x130), 'S', chr(0x212A), chr(0x17F))
_HA_SOUGHT = ('a', 'A', 'ss', 'k', 'xA', 'ab')


def _ascii_fold(s):
    return ''.join(chr(ord(c) + 32) if 'A' <= c <= 'Z' else c for c in s)


@ob(budget=300, bound='subject: 2 characters from a table of 8 (ASCII letters of both cases, U+00DF, U+0130, U+212A, U+017F) followed by "aB", sought string from a table of 6 '
                      '(indices chosen by the solver): contains / starts-with / ends-with / substring-before / substring-after with the HTML ASCII '
                      'case-insensitive collation = the definition on strings folded on A-Z only, slices taken from the original string',
    funcs=['elementpath/collations.py:CollationManager.find/contains/startswith/endswith', 'elementpath/xpath2/_xpath2_functions.py:substring-before/after'])
def html_ascii_collation_folds_ascii_only(i0: int, i1: int, ti: int) -> bool:
    """
    pre: 0 <= i0 <= 7 and 0 <= i1 <= 7 and 0 <= ti <= 5
    post: _
    """
    s = ''.join(_HA_CHARS[[k for k in range(8) if k == i][0]] for i in (i0, i1)) + 'aB'
    t = _HA_SOUGHT[[k for k in range(6) if k == ti][0]]
    fs, ft = _ascii_fold(s), _ascii_fold(t)
    i = fs.find(ft)
    want = [i >= 0, fs.startswith(ft), fs.endswith(ft), s[:i] if i >= 0 else '', s[i + len(t):] if i >= 0 else '']
    return ev(T['ha_all'], s=s, t=t) == want
