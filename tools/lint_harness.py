#!/usr/bin/env python3
"""tools/lint_harness.py — fails if a harness module assigns / defines / imports the same module-level name twice (a later definition
silently replaces the table an earlier obligation reads at call time: this happened three times during the build)."""
import ast, glob, os, sys
HERE = os.path.dirname(os.path.dirname(os.path.abspath(__file__)))
bad = 0
for f in sorted(glob.glob(os.path.join(HERE, 'harness', '*.py'))):
    seen = {}
    for n in ast.parse(open(f).read()).body:
        names = []
        if isinstance(n, ast.Assign):
            names = [t.id for t in n.targets if isinstance(t, ast.Name)]
        elif isinstance(n, (ast.FunctionDef, ast.ClassDef)):
            names = [n.name]
        elif isinstance(n, (ast.Import, ast.ImportFrom)):
            names = [(a.asname or a.name).split('.')[0] for a in n.names]
        for nm in names:
            if nm in seen and not (nm.startswith('_') and len(nm) <= 4) and nm != 'define':
                print('%s: %s defined at line %d and again at line %d' % (os.path.basename(f), nm, seen[nm], n.lineno))
                bad += 1
            seen.setdefault(nm, n.lineno)


def _lit_keys(node):
    if isinstance(node, ast.Call) and getattr(node.func, 'id', None) == 'parse_all' and node.args and isinstance(node.args[0], ast.Dict):
        node = node.args[0]
    if isinstance(node, ast.Dict):
        return [k.value for k in node.keys if isinstance(k, ast.Constant)]
    return []


# the same template key added twice to one token table (T = parse_all({...}); T.update(parse_all({...}))) replaces the earlier expression
for f in sorted(glob.glob(os.path.join(HERE, 'harness', '*.py'))):
    keys = {}
    for n in ast.parse(open(f).read()).body:
        name, ks = None, []
        if isinstance(n, ast.Assign) and isinstance(n.targets[0], ast.Name):
            name, ks = n.targets[0].id, _lit_keys(n.value)
        elif isinstance(n, ast.Expr) and isinstance(n.value, ast.Call) and isinstance(n.value.func, ast.Attribute) and n.value.func.attr == 'update' \
                and isinstance(n.value.func.value, ast.Name) and n.value.args:
            name, ks = n.value.func.value.id, _lit_keys(n.value.args[0])
        for k in ks:
            if (name, k) in keys:
                print('%s: key %r of %s defined at line %d and again at line %d' % (os.path.basename(f), k, name, keys[(name, k)], n.lineno))
                bad += 1
            keys.setdefault((name, k), n.lineno)
sys.exit(1 if bad else 0)
