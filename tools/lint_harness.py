#!/usr/bin/env python3
"""tools/lint_harness.py — fails if a harness module assigns / defines / imports the same module-level name twice (a later definition
silently replaces the table an earlier obligation reads at call time: this happened three times during the build)."""
import ast, glob, os, sys
HERE = os.path.dirname(os.path.dirname(os.path.abspath(__file__)))
bad = 0
for f in sorted(glob.glob(os.path.join(HERE, 'harness', '*.py'))):
    seen = {}
    for n in ast.parse(open(f).read()).body:
        names = []
        if isinstance(n, ast.Assign):
            names = [t.id for t in n.targets if isinstance(t, ast.Name)]
        elif isinstance(n, (ast.FunctionDef, ast.ClassDef)):
            names = [n.name]
        elif isinstance(n, (ast.Import, ast.ImportFrom)):
            names = [(a.asname or a.name).split('.')[0] for a in n.names]
        for nm in names:
            if nm in seen and not (nm.startswith('_') and len(nm) <= 4) and nm != 'define':
                print('%s: %s defined at line %d and again at line %d' % (os.path.basename(f), nm, seen[nm], n.lineno))
                bad += 1
            seen.setdefault(nm, n.lineno)
sys.exit(1 if bad else 0)
