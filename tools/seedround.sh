#!/bin/bash
# tools/seedround.sh <round> <ID>...  — evaluates /tmp/seed<round>-<ID>/SEED/{A,B} with the full quick check of the property
r=$1; shift
for id in "$@"; do
  for x in A B; do
    d=/tmp/seed$r-$id/SEED/$x
    [ -f $d/meta.json ] || { echo "$id-R$r$x missing"; continue; }
    python3 "$(dirname "$0")/seedeval.py" $d $id-R$r$x
  done
done
