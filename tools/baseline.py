#!/usr/bin/env python3
"""Run the repository's pinned test-suite and compare with /root/.vp/BASELINE.json stable_pass.
usage: tools/baseline.py [repo dir] [extra pytest args...]   exit 0 iff every stable-pass test still passes."""
import json, os, subprocess, sys, tempfile
import xml.etree.ElementTree as ET
repo = sys.argv[1] if len(sys.argv) > 1 else '/repo'
extra = sys.argv[2:]
base = json.load(open('/root/.vp/BASELINE.json'))
with tempfile.TemporaryDirectory(dir='/scratch' if os.path.isdir('/scratch') else None) as d:
    out = os.path.join(d, 'j.xml')
    env = dict(os.environ); env.pop('PYTHONPATH', None)
    p = subprocess.run(['/venv/bin/python', '-m', 'pytest', '-q', '-p', 'no:cacheprovider', '--timeout=900',
                        '--continue-on-collection-errors', '--junitxml=' + out] + extra, cwd=repo, capture_output=True, text=True, env=env)
    passed = set()
    for tc in ET.parse(out).getroot().iter('testcase'):
        if not any(c.tag in ('failure', 'error', 'skipped') for c in tc):
            passed.add('%s::%s' % (tc.get('classname'), tc.get('name')))
missing = sorted(set(base['stable_pass']) - passed)
print('stable_pass=%d passed_now=%d missing=%d' % (len(base['stable_pass']), len(passed), len(missing)))
for m in missing[:40]:
    print('  NOT PASSING:', m)
print(p.stdout.strip().splitlines()[-1] if p.stdout.strip() else p.stderr[-300:])
sys.exit(1 if missing else 0)
