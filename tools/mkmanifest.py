#!/usr/bin/env python3
"""Regenerate /verif/MANIFEST.json from the table below (claimed checks must have a harness/cNN.py)."""
import json
import os

HERE = os.path.dirname(os.path.dirname(os.path.abspath(__file__)))
E1 = 'bounded symbolic execution of the real elementpath code with CrossHair (z3 decides every path; "Confirmed over all paths" = exhaustive within the stated bound), counterexamples replayed on the plain package'
CHECKS = {
    'C06': dict(
        text='xs:integer arithmetic (+ - * unary-, abs, idiv, mod, the identity a = (a idiv b)*b + (a mod b), FOAR0001 on zero divisors) is '
             'executed symbolically through token.evaluate with both operands as z3 integers: dividend over ALL integers for each of 8 '
             'constant divisors, both operands symbolic in [-9,9], ring operations over Z x Z. The rounding rule of helpers.round_number, '
             'fn:round (precision absent/0/1/2/-1/-2) and fn:round-half-to-even is decided for ALL rationals by translating the current '
             'source to z3 Real/Int terms with the documented contract of Decimal.quantize/round as the only stubs. Bounded verification, '
             'not proof.',
        note='Trusted: CrossHair models of int, z3 (two versions diffed on the E2 queries), the AST->z3 translator, contract stubs listed in '
             'the evidence. idiv/mod for all rational dividends x 8 constant divisors x 9 carrier pairs are decided by E2. Bug-hunting only, never '
             'counted: INF/NaN divisors, a table of 12 doubles that are not exact decimal ties x precision 0..3. Out: IEEE rounding of '
             'inexact doubles in general, xs:float clamps, overflow to INF.',
        technique='SMT-based symbolic execution (CrossHair/z3) of the operator methods + AST->z3 translation of rounding kernels with contract stubs',
        design='DESIGN.md §4 C06'),
    'C08': dict(
        text='Every sequence function/operator template is executed symbolically through token.evaluate with sequence items, '
             'positions and lengths as z3 variables (items unbounded integers, sequences of length 0..3) and compared with the F&O '
             'list model; the index arithmetic of fn:subsequence is translated from source to z3 and decided for all rational arguments and positions; obligations are discharged only when CrossHair exhausts all paths. This is bounded verification, not proof: '
             'nothing is claimed beyond the per-obligation bounds listed in the evidence.',
        note='Trusted: CrossHair 0.0.110 models of int/str/list/Decimal, z3, the match-desugaring import hook (validated against the '
             'test-suite). for/some/every with 2-3 range expressions over NODE ranges (4-element tree, symbolic labels) are compared with the '
             'list-comprehension model (focus of each range). Out: sequences longer than 3, inexact double arguments, sum/avg on doubles.',
        technique='SMT-based symbolic execution (CrossHair/z3) of evaluate() on parsed templates vs list-model oracle',
        design='DESIGN.md §4 C08'),
}
CHECKS.update({
    'C11': dict(
        text='The integer calendar kernels (days_from_common_era, months2days, adjust_day, with calendar.isleap/leapdays) are translated '
             'from the current source into z3 integer terms and proved equal to an independent civil-calendar day-number reference for '
             'every year in [-2^31, 2^31] (unsat queries, 3-seed z3 portfolio). Constructors, component accessors, 24:00:00 '
             'normalisation, yearMonthDuration addition with day clamping and fromdelta near the datetime range are executed '
             'symbolically (CrossHair) and exhausted within stated field ranges. todelta for every dateTime with year in [10000, 2^31] and '
             'every BCE year, get_timedelta/fromtimedelta for every microsecond multiple are decided by E2 on a contract model of datetime; '
             'every timezone designator +-hh:mm round-trips (E1). fromdelta/ordering/difference for far years and adjust-*-to-timezone '
             'over 7 offsets are bug-hunting only (not exhaustible within budget).',
        note='Trusted: the AST->z3 translator (validated on a concrete grid against the real functions on every run), z3, CrossHair\'s '
             'pure-Python datetime model, the DTv/TDv contract model of datetime/timedelta used by E2. Out: adjust-*-to-timezone beyond the '
             'bug-hunting offsets (adjust-date-to-timezone is claimed over an 11 x 11 table), |year| > 2.7e6 under CrossHair. Included, each case concrete '
             'on its path: differences across the datetime range limits (years 9998..10001, 1, 2, -1, -2); lexical years / timezones under XSD 1.0 and 1.1; '
             '24:00:00 at month and year ends; yearMonthDuration addition across 0000/0001 and 9999/10000; XSD 1.0 BCE values to the timeline and back; '
             'xs:time arithmetic modulo 24 h; sub-second seconds component; duration + value commutativity.',
        technique='AST->z3 translation of calendar kernels vs civil-calendar reference (unsat) + CrossHair symbolic execution of the datatype classes',
        design='DESIGN.md §4 C11'),
    'C13': dict(
        text='UnicodeSubset add/discard/|=/-=/&=/^=/complement/iter_code_points/constructor are executed symbolically from an arbitrary '
             'valid pre-state (<= 3 entries with symbolic bounds over the whole code space) with symbolic operands: membership of a '
             'symbolic code point equals the mathematical set operation and the representation invariant is re-established (one '
             'inductive step). The installed category tables are compared with unicodedata.category for every code point and every '
             'category as QF_BV range-disjunction queries; partition/union laws for every version that ships tables; block '
             'disjointness for all 32 installable versions.',
        note='String arguments with one-character ranges are included. Trusted: CrossHair int/list models, z3. The invariant preserved by add() is the weak one (sorted, non-overlapping); merged '
             'canonical form after add() is known finding C13-add-unmerged; U+FEFF block overlap in Unicode 2.0-2.1.8 is known finding '
             'C13-blocks-feff. CharacterClass add/discard/negation per escape class and a mutation history (no shared state between '
             'instances) are included. Out: historical UCD equality.',
        technique='CrossHair/z3 symbolic execution of one set operation from an arbitrary valid pre-state + z3 QF_BV queries over the category/block tables',
        design='DESIGN.md §4 C13'),
})
CHECKS['C12'] = dict(
    category='translation_validation', engine='E3-regex',
    text='Translation validation of the real translate_pattern: for every pattern of an enumerated XSD-grammar family (quick ~1000, '
         'thorough ~1400 patterns x XSD 1.0 / 1.1+dot-all / XPath anchored mode) the emitted Python regex is parsed with CPython\'s '
         're._parser and compared, as a z3 regular expression over a minterm alphabet, with the language built by an independent '
         'W3C-grammar reference parser: unsat = same language for every subject string of any length. Witnesses are replayed with '
         're on the real pattern. The same for 162 back-reference patterns (back-references as uninterpreted letters), for all single-atom '
         'patterns after a history of other translations, and for the i flag (40 atoms x 4 quantifiers + pairs; F&O 5.6.2 case-variant '
         'rules). fn:matches on symbolic subjects (len <= 3) by CrossHair; invalid patterns give FORX0002.',
    note='Trusted: z3 sequence/regex theory, CPython sre parser, verif_lib/rx.py reference (XML Schema Part 2 app. F; classes from '
         'unicodedata). Known findings (excluded classes, each with its own witness): \\s/\\S and \\w/\\W outside classes, two negative '
         'escapes in one class; with the i flag: category escapes inside bracket expressions, class subtraction. Python\'s IGNORECASE '
         'semantics on literals and sets is read off the re engine (target language). Out: semantics of back-references, m/x flags, '
         'match positions.',
    technique='translation validation: z3 regex-language equivalence (minterm alphabet) of translate_pattern output vs reference grammar',
    design='DESIGN.md §4 C12')
CHECKS['C10'] = dict(
    text='Lexical spaces: the pattern regex of each datatype class (numeric, boolean, hexBinary, language, duration: both inclusions; '
         'date/time family: every valid form accepted) is compared with the XSD lexical-space regex as regular languages in z3 for '
         'strings of any length. Integer bounds: Integer.__init__ is translated from source to z3 and proved to accept exactly the '
         'XSD value range of each of the 13 integer types, for every integer. Constructor / cast / castable agreement and binary '
         'casts on symbolic strings run under CrossHair as bug-hunting only.',
    note='Trusted: z3 regex theory, CPython sre parser, the XSD lexical regexes transcribed in harness/c10.py, AST->z3 translator. Known '
         'findings C10-datetime-is-valid, C10-unicode-whitespace-digits. Whitespace-collapsed boolean values and the sign of zero are included. Out: name types, QName/NOTATION, list types, canonical forms of doubles, casting table '
         'beyond the sampled paths.',
    technique='z3 regex-language inclusion of datatype patterns vs XSD lexical spaces + AST->z3 translation of Integer bounds + CrossHair bug-hunting',
    design='DESIGN.md §4 C10')
CHECKS['C07'] = dict(
    text='Value comparisons (six operators) on unbounded integers, strings (len <= 2), booleans, anyURI; order laws (reflexive, '
         'antisymmetric, transitive, total, lt = not ge) on three unbounded integers; XPTY0004 on incomparable type pairs; general '
         'comparisons on sequences of length 0..2 per side against the existential definition incl. the untypedAtomic rule; EBV table '
         'and and/or/not/if against Boolean algebra: all executed symbolically through token.evaluate and exhausted by CrossHair/z3 '
         'within the per-obligation bounds. Durations, doubles and the XPath 1.0 number conversion are bug-hunting only.',
    note='Trusted: CrossHair models of int/str/bool, desugared match statements. A symbolic str must not be the LEFT operand of a '
         'comparison with a foreign class (proxy returns TypeError instead of NotImplemented): harnesses keep symbolic strings on the '
         'right. Bug-hunting: a table of 8 inexact doubles x 10 decimals in both operand orders (decimal->double promotion), one-sided '
         'timezones. XPath 1.0 string/number comparisons, sub-second durations, sub-hour and year-boundary timezone comparisons, octet order of '
         'binaries are included. Out: inexact doubles in general, DoubleProxy10 tolerance, collations, binary operands.',
    technique='SMT-based symbolic execution (CrossHair/z3) of comparison/logic templates vs definitional oracle; types enumerated, values symbolic',
    design='DESIGN.md §4 C07')
CHECKS['C09'] = dict(
    text='substring/substring-before/after/contains/starts-with/ends-with/concat/compare/codepoint-equal/string-join/string-length/'
         'codepoint conversions/normalize-space/translate/upper/lower-case are executed symbolically (CrossHair) through '
         'token.evaluate on symbolic Unicode strings of length <= 3 (XPath 3.1 and 1.0 parsers) and compared with the F&O '
         'definitions. The index arithmetic of fn:substring is translated from the current source to z3 (contract stubs for '
         'quantize/slicing/get_argument) and decided for ALL rational start/length, all string lengths and all positions.',
    note='Trusted: CrossHair str model, AST->z3 translator and its contract stubs (listed in the evidence). Out: URI escaping, '
         'normalize-unicode, collations other than code point, libxml2 agreement, INF/NaN arguments beyond constant cases.',
    technique='CrossHair/z3 symbolic execution on symbolic strings + AST->z3 translation of substring index arithmetic (unsat for all rationals)',
    design='DESIGN.md §4 C09')
CHECKS['C15'] = dict(
    text='array:get/subarray/remove/insert-before/put/append/reverse/join/flatten/head/tail/size, the ? and () lookups, map:put/get/'
         'size/remove/contains/keys/entry/merge(use-first,use-last) are executed symbolically through token.evaluate with members, '
         'values and every index/length argument as solver variables (indices over all integers where the case split is finite) and '
         'compared with the Python list/dict model, with FOAY0001/FOAY0002 exactly outside the bounds, and with the operand re-read '
         'after each call to show it is unchanged.',
    note='Trusted: CrossHair int/list/dict models. Map keys restricted to small integer ranges (hashing a symbolic key realises it). '
         'Keys of 7 types incl. NaN and values of not comparable types are included (xs:date / xs:dayTimeDuration first keys: bug-hunting). '
         'Known findings C15-boolean-numeric-key, C15-date-time-key-collision. Out: maps holding xs:date and xs:time keys together '
         '(CrossHair\'s dict model compares keys with == linearly), node and function members.',
    technique='SMT-based symbolic execution (CrossHair/z3) of map:/array: templates vs list/dict model; operand-unchanged re-read',
    design='DESIGN.md §4 C15')
CHECKS['C16'] = dict(
    text='Enumerated function-item programs (closures created in for/let and called later, twice and in reverse order; two closures '
         'from one function expression; a closure surviving a later re-binding; named references; partial application; nested and '
         'higher-order calls; fold-left/right, for-each, filter, for-each-pair, apply, sort with key and its stability) are executed '
         'symbolically with captured values, arguments and sequences of <= 3 unbounded integers and compared with the direct-call '
         'expansion computed in Python.',
    note='Trusted: CrossHair int/list models. Programs are enumerated, values symbolic; sort with a collation argument, independent '
         'partial applications and lexical scoping at the call site are included. Closures passed into partially applied higher-order functions keep their bindings. Known finding C16-partial-of-partial. Out: recursion '
         'through named user functions, function items crossing parser instances.',
    technique='SMT-based symbolic execution (CrossHair/z3) of enumerated function-item programs vs direct-call expansion',
    design='DESIGN.md §4 C16')
CHECKS['C05'] = dict(
    text='Enumerated binding programs (for/let/some/every incl. nested re-binding and two-variable for, inline-function parameters '
         'shadowing outer variables, for consumed by exists()/head(), quantifier inside a predicate, maps re-read after map:put) are '
         'executed symbolically with every variable value a solver variable over histories A, B, A of the same token: results equal '
         'the definitional values, the third evaluation equals the first, the caller\'s variables dict is unchanged, names unbound '
         'outside stay unbound (XPST0008). Selector.select = list(iter_select), repeatable across documents, on a 4-element tree '
         'with symbolic labels whose structure, attributes and text are unchanged afterwards. Closures called under a re-binding of the '
         'captured name return the captured value; sequences stored in maps/arrays (built by the expression or passed in by the caller) '
         'are not extended by the comma operator. Early-exit consumers (exists, head, quantifiers) and absolute paths leave the focus of the '
         'enclosing expression and of a reused context object; let bindings do not outlive the let; select() and iter_select() agree.',
    note='Trusted: CrossHair int/str/dict models, pure-Python ElementTree under the solver (real ElementTree on replay). Out: schema '
         'objects, namespace maps, histories longer than 3; date/time variable immutability is bug-hunting only.',
    technique='SMT-based symbolic execution (CrossHair/z3) of enumerated binding programs over 3-step histories with symbolic values',
    design='DESIGN.md §4 C05')
CHECKS['C18'] = dict(
    text='One generated condition per (carrier, sequence type): `$v instance of T`, match_sequence_type and `$v treat as T` (value '
         'returned unchanged or XPDY0050) on sequences of symbolic length 0..3 with symbolic payloads, against an independent '
         'reference matcher, for 41 types x integer carrier (quick) and x string/boolean carriers (thorough). The subtype relation is '
         'proved sound (match(V,S) and S<=T implies match(V,T)) for all 41x41 pairs on symbolic integer and string sequences, and '
         'reflexive/transitive on the enumerated set. 23 built-in functions are called with symbolic arguments and their results '
         'matched against the registered return type.',
    note='Trusted: CrossHair models; the reference type table in harness/c18.py. Types are enumerated, values symbolic. Out: schema '
         'types, deep function tests. map(K,V)/array(T)/function(*) tests and kind tests on element/attribute/text/comment nodes are '
         'included, as are function tests on references below their maximum arity, duration component return types and treat as with '
         'map()/array()/function() tests; known finding C18-kindtest-instance-of.',
    technique='SMT-based symbolic execution (CrossHair/z3), one generated condition per (carrier, type); z3 over the subtype table',
    design='DESIGN.md §4 C18')
CHECKS['C01'] = dict(
    text='For every (tree shape, template) pair of an enumerated family (78 templates: 11 axes x name/wildcard/node() tests in one- '
         'and two-step paths, positional and last() predicates, parenthesised paths, union, text()/comment() tests; all ordered trees '
         'of 4 elements, 5 in thorough, with a comment and a text node) the element tags are solver variables over {a,b,c} and the '
         'positional predicate is an unbounded integer: the real XPath 1.0 and 3.1 parsers (all four in thorough) must return distinct '
         'nodes in document order equal to a reference evaluator of the XDM axis definitions, and leave the tree unchanged. The '
         'reference evaluator itself agrees with libxml2 on 214 812 concrete cases (validated offline, see DESIGN).',
    note='Trusted: CrossHair str/list models, pure-Python ElementTree under the solver (real ElementTree on replay), the reference '
         'evaluator in harness/c01.py; real lxml documents with document-level siblings are compared with libxml2 itself (lxml xpath()) '
         'on 18 paths. Known finding C01-following-from-attribute. Attribute templates (@k, [@k], ../@k with symbolic attribute presence) and position() predicates '
         'are included. Out: lxml trees and libxml2 agreement for all inputs, namespace axis, trees of more than 5 elements.',
    technique='SMT-based symbolic execution (CrossHair/z3): shapes and templates enumerated, labels and positions symbolic, vs XDM reference evaluator',
    design='DESIGN.md §4 C01')
CHECKS['C02'] = dict(
    text='The real tree builders are executed symbolically on pure-Python ElementTree inputs whose attribute counts, namespace-map '
         'size (with/without xml), optional text/tail chunks, comment presence and root kind are solver variables: node count = one per '
         'element/attribute/in-scope namespace/comment/non-None text chunk, positions unique and strictly increasing in document '
         'order, lazily created namespace and attribute nodes inside their element\'s gap before the first child, parent/children '
         'links consistent, string values = concatenated descendant text; union/intersect/except, is, <<, >>, root, innermost, '
         'outermost on a 4-element tree with symbolic labels agree with identity and preorder.',
    note='Trusted: CrossHair models, pure-Python ElementTree. Known finding C02-string-value-order (mixed-content string value not in '
         'document order) is excluded from the main condition and kept as a witness. Real lxml documents with document-level comments/'
         'PIs, attributes and namespace declarations are driven with the COUNTS as solver variables (the lxml objects are concrete on '
         'each path); Element/ElementTree roots under fragment None/True/False; comment / PI objects of the tree passed as item or variable '
         'keep their identity; tails of comments and PIs are part of string values. Out: lxml trees with symbolic text, trees beyond the '
         'enumerated shapes.',
    technique='SMT-based symbolic execution (CrossHair/z3) of build_node_tree and node operators with symbolic counts/strings/labels',
    design='DESIGN.md §4 C02')
CHECKS['C14'] = dict(
    text='On a mixed-content sibling arrangement (3 elements, 2 text nodes, 2 comments, 2 processing instructions, one grandchild) with '
         'element tags and PI targets as solver variables (alphabet {a,b} quick, {a,b,c} thorough; the solver case-splits the labels) '
         'and the root kind enumerated (document, element, fragment): node.path strings of distinct nodes are distinct, every step '
         'number equals 1 + the preceding siblings of the same expanded name / kind / PI target, fn:path(.) through the evaluator '
         'gives the same strings (relative to root() for element roots), and etree_iter_paths agrees with node.path.',
    note='Trusted: CrossHair str model, pure-Python ElementTree. The step numbering is the one XPath positional predicates apply (C01 '
         'decides child::E[$n]). On real lxml documents with document-level and nested comments/PIs (counts symbolic) every path string '
         'is re-evaluated as XPath 3.1 and must select exactly its node. Out: re-evaluating path strings with symbolic labels (parser '
         'on symbolic text), attribute and namespace node paths, namespaced names.',
    technique='SMT-based symbolic execution (CrossHair/z3) of node.path / fn:path on enumerated arrangements with symbolic names',
    design='DESIGN.md §4 C14')
CHECKS['C03'] = dict(
    text='Evaluation half: every (template, argument-carrier) pair of an enumerated family (21 operator forms and 54 built-in '
         'functions x 9 carrier pairs: integers, exact decimals and doubles k/4, strings of length <= 2, boolean, empty and two-item '
         'sequences, ill-typed combinations) is executed symbolically through token.evaluate: returning or raising ElementPathError '
         'are the only accepted outcomes, any other exception is a counterexample (replayed). Integer/string/boolean carriers are '
         'exhausted; decimal/double/string-to-number carriers are bug-hunting. Parse half, lexeme bodies only: for every string-literal '
         'body of length <= 2 (XPath 1.0 and 3.1) parse returns or raises ElementPathError and the same parser instance then parses '
         'fixed expressions exactly like a fresh instance; the same for EVERY whole source of length <= 1 over printable ASCII. No call '
         'hangs: collation-failure histories on a stub locale module (installed locales chosen by the solver) leave the only lock free.',
    note='Trusted: CrossHair models. Out and stated: arbitrary source strings beyond lexeme bodies (the tokenizer regex is out of reach '
         'for symbolic text), documents as context beyond the edge-source table, comment bodies and braced URIs only as bug-hunting. A table of 37 '
         'edge sources (failed =>, literals beyond conversion limits, huge doubles, language tags, occurrence indicators, function conversion), '
         '13 malformed collation strings and 28 lookup sources are included. Known finding C03-recursion-depth. The 51 sources of a last sweep of the '
         'baseline report (integers beyond the double range, untyped arguments, assertions) are a main obligation after their repairs.',
    technique='SMT-based symbolic execution (CrossHair/z3): exception-freedom of enumerated templates on symbolic arguments; symbolic lexeme bodies',
    design='DESIGN.md §4 C03')
CHECKS['C17'] = dict(
    text='JSON string-escaping kernels only: for every string of length <= 1 over all 0x110000 code points (length 2 as bug-hunting) '
         'unescape_json_string(escape_json_string(s)) = s, the escaped text is well-formed JSON string content and an independent '
         'decoder (Python json) reads it back as s - executed symbolically by CrossHair/z3, one obligation per code-point class (controls, '
         'quote/backslash, ASCII, BMP, surrogates, astral); the XML code-point predicate used by the serializer. API-level round trips '
         '(parse-json(serialize(v)), xml-to-json(json-to-xml(t))) are run as bug-hunting only.',
    note='Trusted: CrossHair str/json models. Out (stated): XML round trip parse-xml(serialize(node)) (expat is C code on bytes), JSON '
         'value round trips beyond the table of 35 JSON texts (x base URI x escape option x options map) and bug-hunting, number formatting of '
         'decimals. Tables (each case concrete on its path): 10 encodings, invalid JSON-XML booleans, option order of fallback/escape, NaN/Infinity texts.',
    technique='SMT-based symbolic execution (CrossHair/z3) of the JSON escape/unescape kernels vs an independent decoder',
    design='DESIGN.md §4 C17')
CHECKS['C19'] = dict(
    text='The locale module used by elementpath.collations is replaced by a stub whose set of installed locales is chosen by the '
         'solver (de, en_US, it_IT, any other: every configuration, including none beyond C/POSIX); for two-evaluation histories over '
         '10 collation URIs (code point, HTML, UCA with lang/fallback yes/no/invalid, bare locale names, malformed) x 8 '
         'collation-taking functions, after each evaluation - returned or raised - the collation lock is observed free, LC_COLLATE is '
         'the initial one, the exception (if any) is an ElementPathError, the second result equals the one obtained alone, and '
         'os.environ is unchanged; 4 histories with the INITIAL process locale chosen by the solver from 5. environment-variable() and '
         'available-environment-variables() are empty for every symbolic name. Entity declarations behind up to 140 000 characters of '
         'prolog are rejected (bug-hunting: expat is C code). The decimal context is unchanged by format-number/round/sum on 39-digit '
         'decimals; after a concrete history of regexes that subtract from negated escapes, independent matches answer as on a fresh process.',
    note='Trusted: the locale stub implements the documented setlocale/getlocale contract; CrossHair is single-threaded. Out '
         '(stated): thread interleavings of independent Selectors, entity expansion in fn:parse-xml (expat, C code), the real C locale '
         'library, the decimal context.',
    technique='SMT-based symbolic execution (CrossHair/z3) with the installed-locale configuration as solver variables over 2-step histories',
    design='DESIGN.md §4 C19')
NOT_APPLICABLE = {
    'C04': 'Quantifies over program syntax and hash seeds: no value domain to make symbolic; symbolic source text does not get through '
           'the tokenizer regex under CrossHair (600 CPU-s, len<=2, no verdict); a table-level z3 check would verify a model of the '
           'Pratt loop, not the code (DESIGN §4 C04).',
    'C20': 'Smallest instance (1 schema, 2 typed elements, payload integers in +-100) not decided in 300 CPU-s: the xmlschema validator '
           'runs under the tracer, typed values realise at int(), and the quantifier over schemas is structural, enumeration only '
           '(DESIGN §4 C20).',
}


def main():
    props = [json.loads(l)['id'] for l in open(os.path.join(HERE, 'properties.jsonl'))]
    checks = []
    for pid in props:
        c = CHECKS.get(pid)
        if not c or not os.path.exists(os.path.join(HERE, 'harness', pid.lower() + '.py')):
            continue
        checks.append(dict(
            property_id=pid,
            quick_cmd='./check %s --tier quick' % pid,
            thorough_cmd='./check %s --tier thorough' % pid,
            evidence_file='evidence/%s.json' % pid,
            replay_cmd_template='./check %s --replay {path}' % pid,
            engine=c.get('engine', 'E1-crosshair'),
            level_claimed=dict(category=c.get('category', 'other'), text=c['text'], design_ref=c['design']),
            level_note=c['note'],
            technique=c['technique']))
    claimed = {c['property_id'] for c in checks}
    na = []
    for pid in props:
        if pid in claimed:
            continue
        na.append(dict(property_id=pid, reason=NOT_APPLICABLE.get(pid, 'check not built yet in this session (planned, see DESIGN.md §4)')))
    man = dict(
        version=1,
        setup_cmd='./setup.sh',
        hooks=dict(guard='ELEMENTPATH_VERIF', enable='no source hooks: checks import /repo/elementpath through an import hook that lives in /verif',
                   baseline_off_cmd='cd /repo && /venv/bin/python -m pytest -ra -q -p no:cacheprovider --timeout=900 --continue-on-collection-errors',
                   source_commits=[], add_only=True),
        engines=[
            dict(name='E1-crosshair', path='verif_lib/worker.py', serves_properties=sorted(claimed),
                 kind_free_text='CrossHair 0.0.110 symbolic execution (z3) of the real bytecode, one process per condition, reachability twin, replay'),
            dict(name='E2-py2smt', path='verif_lib/py2smt.py', serves_properties=[p for p in ('C06', 'C09', 'C10', 'C11') if p in claimed],
                 kind_free_text='AST->z3 translation of closed integer/rational kernels from the current source, contract stubs listed in evidence'),
            dict(name='E3-regex', path='verif_lib/rx.py', serves_properties=[p for p in ('C10', 'C12') if p in claimed],
                 kind_free_text='regular-language equivalence in z3 seq/regex theory over a minterm alphabet'),
        ],
        checks=checks,
        not_applicable=na,
        notes='All checks: ./check <ID> --tier quick|thorough; exit 0 held / 1 VIOLATION / 3 harness error. See DESIGN.md.')
    with open(os.path.join(HERE, 'MANIFEST.json'), 'w') as f:
        json.dump(man, f, indent=1)
    print('MANIFEST.json: %d checks, %d not applicable' % (len(checks), len(na)))


if __name__ == '__main__':
    main()
