#!/bin/bash
# usage: tools/mutcheck.sh <patch.diff | rev:<git rev> | rpatch:<patch to reverse>> <ID> [check args...]
# Runs ./check <ID> against a scratch worktree of /repo (HEAD + patch), outside /repo and /verif; evidence and replays of this run
# go to a scratch output dir; everything is removed afterwards.  Prints the check's output and "MUTCHECK exit=<code>".
set -u
spec=$1; shift
id=$1; shift
here=$(cd "$(dirname "$0")/.." && pwd)
wt=$(mktemp -d /tmp/verif-wt-XXXXXX); out=$(mktemp -d /tmp/verif-out-XXXXXX)
rmdir "$wt"
cleanup() { git -C /repo worktree remove --force "$wt" >/dev/null 2>&1; rm -rf "$wt" "$out"; git -C /repo worktree prune; }
trap cleanup EXIT
case "$spec" in
  rev:*) git -C /repo worktree add -q --detach "$wt" "${spec#rev:}" || exit 3 ;;
  rpatch:*) git -C /repo worktree add -q --detach "$wt" HEAD || exit 3
     git -C "$wt" apply -R "$(realpath "${spec#rpatch:}")" || { echo "MUTCHECK patch-does-not-apply"; exit 3; } ;;
  *) git -C /repo worktree add -q --detach "$wt" HEAD || exit 3
     git -C "$wt" apply "$(realpath "$spec")" || { echo "MUTCHECK patch-does-not-apply"; exit 3; } ;;
esac
VERIF_REPO="$wt" VERIF_OUT="$out" "$here/check" "$id" "$@"
code=$?
echo "MUTCHECK exit=$code"
exit $code
