#!/usr/bin/env python3
"""tools/seedeval.py <seed dir containing patch.diff demo.py meta.json> <name> [--tier quick|thorough] [--only ...]
Confirms a seeded change in a scratch worktree of /repo (outside /repo and /verif): applies, test-suite baseline unchanged, demo fails
with it and passes without it; then runs ./check <property> against the patched worktree; stores everything under /verif/seeded/<name>/."""
import json, os, shutil, subprocess, sys, tempfile, time
HERE = os.path.dirname(os.path.dirname(os.path.abspath(__file__)))
src, name = sys.argv[1], sys.argv[2]
extra = sys.argv[3:]
meta = json.load(open(os.path.join(src, 'meta.json')))
pid = meta['property']
wt = tempfile.mkdtemp(prefix='verif-seed-', dir='/tmp'); os.rmdir(wt)
out = tempfile.mkdtemp(prefix='verif-seedout-', dir='/tmp')
def sh(cmd, **kw):
    return subprocess.run(cmd, shell=True, capture_output=True, text=True, **kw)
res = dict(confirmed=False)
try:
    assert sh('git -C /repo worktree add -q --detach %s HEAD' % wt).returncode == 0
    patch = os.path.abspath(os.path.join(src, 'patch.diff')); demo = os.path.abspath(os.path.join(src, 'demo.py'))
    r0 = sh('/venv/bin/python %s %s' % (demo, wt))
    res['demo_clean_exit'] = r0.returncode
    a = sh('git -C %s apply %s' % (wt, patch))
    res['applies'] = a.returncode == 0
    if a.returncode == 0:
        r1 = sh('/venv/bin/python %s %s' % (demo, wt))
        res['demo_patched_exit'] = r1.returncode
        res['demo_output'] = (r1.stdout + r1.stderr)[-600:]
        b = sh('python3 %s/tools/baseline.py %s' % (HERE, wt))
        res['baseline'] = b.stdout.strip().splitlines()[0] if b.stdout.strip() else b.stderr[-200:]
        res['baseline_ok'] = b.returncode == 0
        res['confirmed'] = res['demo_clean_exit'] == 0 and res['demo_patched_exit'] == 1 and res['baseline_ok']
        t = time.time()
        env = dict(os.environ, VERIF_REPO=wt, VERIF_OUT=out)
        c = subprocess.run([os.path.join(HERE, 'check'), pid] + extra, capture_output=True, text=True, env=env)
        res['check_cmd'] = './check %s %s (VERIF_REPO=<patched worktree>)' % (pid, ' '.join(extra))
        res['check_exit'] = c.returncode
        res['check_wall_s'] = round(time.time() - t)
        res['check_output'] = [l for l in c.stdout.splitlines() if l.startswith(('VIOLATION', 'KNOWN', pid, 'HARNESS'))][:12]
        viol = []
        for l in c.stdout.splitlines():
            if l.startswith('VIOLATION'):
                p = l.split('replay=')[1]
                try: viol.append(json.load(open(p)).get('function') + ': ' + json.load(open(p)).get('call', '')[:120])
                except Exception: pass
        res['caught_by'] = viol
        res['caught'] = c.returncode == 1
finally:
    sh('git -C /repo worktree remove --force %s' % wt); shutil.rmtree(wt, ignore_errors=True); shutil.rmtree(out, ignore_errors=True)
    sh('git -C /repo worktree prune')
dst = os.path.join(HERE, 'seeded', name)
os.makedirs(dst, exist_ok=True)
for f in ('patch.diff', 'demo.py'):
    shutil.copy(os.path.join(src, f), os.path.join(dst, f))
prev = None
try:
    prev = json.load(open(os.path.join(dst, 'meta.json')))
except Exception:
    pass
hist = (prev or {}).get('history', [])
if prev and prev.get('evaluation'):
    e = prev['evaluation']
    hist.append(dict(check_cmd=e.get('check_cmd'), caught=e.get('caught'), caught_by=e.get('caught_by'), verif_commit=e.get('verif_commit')))
res['verif_commit'] = subprocess.run('git -C %s log --format=%%h -1' % HERE, shell=True, capture_output=True, text=True).stdout.strip()
meta['history'] = hist
meta['evaluation'] = res
json.dump(meta, open(os.path.join(dst, 'meta.json'), 'w'), indent=1)
print(name, 'confirmed=%s caught=%s' % (res.get('confirmed'), res.get('caught')), res.get('caught_by'), res.get('baseline'))
