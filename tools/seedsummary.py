#!/usr/bin/env python3
"""tools/seedsummary.py — writes seeded/SUMMARY.md from seeded/*/meta.json (one row per seeded change: what it needs, whether the check
as first built caught it, which obligation catches it now)."""
import json, os, glob
HERE = os.path.dirname(os.path.dirname(os.path.abspath(__file__)))
rows = []
for d in sorted(glob.glob(os.path.join(HERE, 'seeded', '*', 'meta.json'))):
    name = os.path.basename(os.path.dirname(d))
    m = json.load(open(d))
    e = m.get('evaluation', {})
    hist = m.get('history', [])
    first = hist[0] if hist else e
    rows.append((name, m.get('property'), e.get('confirmed'), first.get('caught'), e.get('caught'),
                 sorted({c.split(':')[0] for c in e.get('caught_by', [])}), m.get('needs', '').replace('\n', ' ')[:260], m.get('note', '')))
out = ['# Seeded changes', '',
       'Each directory holds `patch.diff`, `demo.py` and `meta.json` (property, what the change needs, what was run). Every change was written by a',
       'fresh sub-agent that saw only the property text and a scratch worktree, and was confirmed here in a scratch worktree: it applies, the',
       'pinned test-suite verdicts are unchanged, the demo exits 1 with it and 0 without it. Round 1 = `<ID>-A/B` (+ rebased `A2/B2`), round 2 =',
       '`<ID>-R2A/B`, round 3 = `<ID>-R3A/B`. "first" = caught by the check as it stood when the change arrived; "now" = caught by the current check.', '',
       '| change | confirmed | first | now | caught by (obligations) | needs |', '|---|---|---|---|---|---|']
for name, pid, conf, first, now, by, needs, note in rows:
    out.append('| %s | %s | %s | %s | %s | %s |' % (name, 'yes' if conf else 'no', 'yes' if first else 'no', 'yes' if now else 'no',
                                                    ', '.join(by)[:160] or (note or '-'), needs.replace('|', '\\|')))
n = [r for r in rows if r[2]]
out += ['', '%d confirmed changes; %d caught by the check as first built; %d caught now.' % (len(n), sum(1 for r in n if r[3]), sum(1 for r in n if r[4])), '']
open(os.path.join(HERE, 'seeded', 'SUMMARY.md'), 'w').write('\n'.join(out))
print(out[-2])
for r in n:
    if not r[4]:
        print('MISSED', r[0])
for r in rows:
    if not r[2]:
        print('UNCONFIRMED', r[0])
